#!/bin/bash
# Run once after a fresh restore, offline: builds the driver from files on disk
# and warms the Go build caches the checks use (both toolchains, race std).
cd "$(dirname "$0")"
export GOFLAGS=-mod=mod GOPROXY=off GOSUMDB=off GOTOOLCHAIN=local
export PATH="$PATH:/usr/local/go/bin:/opt/veriftools/go1.26.8/bin"
mkdir -p bin evidence replays
go build -o bin/simctl ./cmd/simctl || { echo "setup: cannot build simctl" >&2; exit 1; }
# cache warming only: failures here are not fatal, the checks build what they need
(cd /repo && go build ./... && go build -race std && go1.26.8 build std && go1.26.8 build ./...) >/dev/null 2>&1 || true
echo "setup ok"
