#!/bin/bash
# tools/selftest.sh [seeded-dir ...]
# Regression test of the checks themselves: every seeded change under /verif/seeded must be
# reported (exit 1) by the check of the property it breaks, and the unchanged tree must pass.
# Works on scratch worktrees under /var/tmp/verif-selftest (removed afterwards); /repo itself is
# only read. Runs up to 4 seeded changes at a time.
set -u
cd "$(dirname "$0")/.."
export base=/var/tmp/verif-selftest
mkdir -p "$base"
dirs=("$@"); [ ${#dirs[@]} -eq 0 ] && dirs=(seeded/*/)
run_one() {
  d="${1%/}"; name=$(basename "$d"); prop=$(python3 -c "import json;m=json.load(open('$d/meta.json'));print(m.get('check',m['property']))")
  wt="$base/$name"
  git -C /repo worktree add --detach "$wt" HEAD >/dev/null 2>&1 || { echo "$name: cannot create worktree"; return; }
  if git -C "$wt" apply "$PWD/$d/patch.diff"; then
    out=$(VERIF_REPO="$wt" VERIF_SCRATCH="$base/scratch-$name" VERIF_BUDGET="${VERIF_BUDGET:-40}" ./check "$prop" quick 2>&1); rc=$?
    cls=$(echo "$out" | grep -o "class=[^ ]*" | head -1)
    exp=$(python3 -c "import json;print(json.load(open('$d/meta.json')).get('expected',''))")
    if [ $rc -eq 1 ]; then echo "CAUGHT  $name by $prop $cls"; elif [ "$exp" = missed ] && [ $rc -eq 0 ]; then echo "KNOWN-MISS  $name by $prop (documented limit, see meta.json)"; else echo "MISSED  $name by $prop (exit $rc) $(echo "$out" | grep -E 'HARNESS' | head -1 | cut -c1-200)"; fi
  else echo "$name: patch does not apply"; fi
  git -C /repo worktree remove --force "$wt" >/dev/null 2>&1; rm -rf "$base/scratch-$name"
  rm -f replays/${prop}-*.json
}
export -f run_one
printf '%s\n' "${dirs[@]}" | xargs -P 4 -I{} bash -c 'run_one {}'
rmdir "$base" 2>/dev/null || true
