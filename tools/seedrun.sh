#!/bin/bash
# tools/seedrun.sh <patch.diff> <property> [<property> ...]
# Applies a seeded change to /repo's working tree, runs the named checks (quick
# tier, or VERIF_TIER), and always restores the tree afterwards. Never commits.
set -u
patch="$1"; shift
cd /repo || exit 2
if [ -n "$(git status --porcelain)" ]; then echo "seedrun: /repo working tree is not clean" >&2; exit 2; fi
git apply "$patch" || { echo "seedrun: patch does not apply" >&2; exit 2; }
trap 'git -C /repo checkout -- . ; git -C /repo clean -fdq' EXIT
rc=0
for p in "$@"; do
  echo "=== $p on $(basename "$(dirname "$patch")") ==="
  (cd /verif && ./check "$p" "${VERIF_TIER:-quick}" 2>&1 | grep -E "VIOLATION|KNOWN-FINDING|HARNESS-ERROR|class=|WARNING" ; exit "${PIPESTATUS[0]}")
  r=$?
  echo "exit=$r"
  [ $r -ne 0 ] && rc=$r
done
exit $rc
