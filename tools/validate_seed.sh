#!/bin/bash
# tools/validate_seed.sh <worktree> <patch.diff> <demo-src> <demo-dest-rel> <go test args...>
# Confirms, in a scratch worktree: (1) with the patch the repo builds and its whole suite passes,
# (2) the demonstration fails with the patch, (3) passes without it.
set -u
export GOFLAGS=-mod=mod GOPROXY=off GOSUMDB=off GOTOOLCHAIN=local
wt="$1"; patch="$2"; demo="$3"; dest="$4"; shift 4
cd "$wt" || exit 2
git checkout -q -- . && git clean -fdq
git apply "$patch" || { echo "patch does not apply"; exit 2; }
echo "--- suite with patch"
go build ./... && go test -vet=off -count=1 ./... 2>&1 | tail -12
mkdir -p "$(dirname "$dest")"; cp "$demo" "$dest"
echo "--- demo with patch (expect FAIL)"
"$@" 2>&1 | tail -15; echo "demo exit with patch: ${PIPESTATUS[0]}"
rm -f "$dest"; git checkout -q -- . ; mkdir -p "$(dirname "$dest")"; cp "$demo" "$dest"
echo "--- demo without patch (expect PASS)"
"$@" 2>&1 | tail -6; echo "demo exit without patch: ${PIPESTATUS[0]}"
rm -f "$dest"; git checkout -q -- . && git clean -fdq
