#!/usr/bin/env python3
"""tools/intake.py - take in one seeded change produced by a sub-agent.

usage: tools/intake.py NAME PROP WORKTREE PATCH DEMO DEST NEEDS -- <demo command...>

 NAME      directory name under /verif/seeded (e.g. C05-k-something)
 PROP      property the change breaks (C05, C07, C11, C13)
 WORKTREE  scratch git worktree of /repo to validate in (left pristine)
 PATCH     the agent's patch file
 DEMO      the agent's demonstration file
 DEST      path inside the worktree where the demonstration has to be placed
 NEEDS     what the change needs in order to manifest (one sentence)

Steps: (1) in the worktree: patch applies, repo builds, whole suite passes with it, demo fails
with it, demo passes without it; (2) copy patch/demo/notes into /verif/seeded/NAME and write
meta.json; (3) run the check of PROP against it on a scratch worktree (tools/selftest.sh) and
record CAUGHT/MISSED with the violation class, as the checks stand at the current commit.
"""
import json, os, shutil, subprocess, sys

ENV = dict(os.environ, GOFLAGS="-mod=mod", GOPROXY="off", GOSUMDB="off", GOTOOLCHAIN="local")


def sh(cmd, cwd=None, shell=False):
    p = subprocess.run(cmd, cwd=cwd, env=ENV, shell=shell, stdout=subprocess.PIPE, stderr=subprocess.STDOUT, text=True)
    return p.returncode, p.stdout


def put(demo, target):
    if os.path.isdir(demo):
        shutil.copytree(demo, target)
    else:
        os.makedirs(os.path.dirname(target), exist_ok=True)
        shutil.copy(demo, target)


def drop(target):
    if os.path.isdir(target):
        shutil.rmtree(target)
    else:
        os.remove(target)


def main():
    if "--" not in sys.argv:
        print(__doc__)
        sys.exit(2)
    i = sys.argv.index("--")
    name, prop, wt, patch, demo, dest, needs = sys.argv[1:i]
    cmd = sys.argv[i + 1:]
    sh(["git", "checkout", "-q", "--", "."], wt)
    sh(["git", "clean", "-fdq"], wt)
    rc, out = sh(["git", "apply", patch], wt)
    if rc != 0:
        print("patch does not apply:", out)
        sys.exit(1)
    rc_build, out_build = sh("go build ./... && go test -vet=off -count=1 ./...", wt, shell=True)
    suite_ok = rc_build == 0 and "FAIL" not in out_build
    put(demo, os.path.join(wt, dest))
    rc_with, out_with = sh(cmd, wt)
    drop(os.path.join(wt, dest))
    sh(["git", "checkout", "-q", "--", "."], wt)
    put(demo, os.path.join(wt, dest))
    rc_without, out_without = sh(cmd, wt)
    drop(os.path.join(wt, dest))
    sh(["git", "checkout", "-q", "--", "."], wt)
    sh(["git", "clean", "-fdq"], wt)
    print(f"suite with patch: {'ok' if suite_ok else 'FAILS'}; demo with patch: exit {rc_with}; demo without patch: exit {rc_without}")
    valid = suite_ok and rc_with != 0 and rc_without == 0
    if not valid:
        print("NOT VALID as a seeded change; not stored")
        print(out_build[-1500:] if not suite_ok else "")
        print(out_with[-1200:])
        print(out_without[-800:])
        sys.exit(1)
    d = os.path.join("/verif/seeded", name)
    os.makedirs(d, exist_ok=True)
    shutil.copy(patch, os.path.join(d, "patch.diff"))
    put(demo, os.path.join(d, os.path.basename(demo.rstrip("/"))))
    notes = os.path.join(os.path.dirname(patch), "notes.md")
    if os.path.exists(notes):
        shutil.copy(notes, os.path.join(d, "notes.md"))
    head = subprocess.run(["git", "-C", "/verif", "rev-parse", "--short", "HEAD"], stdout=subprocess.PIPE, text=True).stdout.strip()
    meta = dict(property=prop, needs=needs,
                demo=f"{os.path.basename(demo)} -> {dest}; {' '.join(cmd)}",
                validated="tools/intake.py in a scratch worktree: patch applies; go build ./... && go test -vet=off -count=1 ./... pass with it; the demo exits %d with it and 0 without it" % rc_with,
                ran=f"VERIF_BUDGET=40 tools/selftest.sh seeded/{name}/", caught_by="pending")
    json.dump(meta, open(os.path.join(d, "meta.json"), "w"), indent=1)
    rc, out = sh(["tools/selftest.sh", f"seeded/{name}/"], "/verif")
    line = [l for l in out.splitlines() if l.startswith(("CAUGHT", "MISSED"))]
    verdict = line[0] if line else "selftest gave no verdict: " + out[-300:]
    print(verdict)
    meta["caught_by"] = f"as the checks stood at /verif commit {head}: {verdict}"
    json.dump(meta, open(os.path.join(d, "meta.json"), "w"), indent=1)


if __name__ == "__main__":
    main()
