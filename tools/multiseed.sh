#!/bin/bash
# tools/multiseed.sh <seed>... : quick tier of every check under several VERIF_SEED values on the
# tree as it is (expected: all exit 0 on the unchanged tree). Prints one line per (seed, property).
cd "$(dirname "$0")/.."
for s in "$@"; do for p in C05 C07 C11 C13; do
  out=$(VERIF_SEED=$s ./check $p quick 2>&1); rc=$?
  echo "seed=$s $p exit=$rc $(echo "$out" | grep -E 'VIOLATION|HARNESS|class=' | head -2 | tr '\n' ' ' | cut -c1-400)"
done; done
