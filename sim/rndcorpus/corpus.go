// Package rndcorpus lists the message types of the random schema packages
// generated at check time by the working-tree plugin (overwritten by simctl;
// empty by default).
package rndcorpus

import "google.golang.org/protobuf/proto"

var Messages []proto.Message
