// Package rnd is the parent directory of the random corpus packages that the
// working-tree plugin generates at check time.
package rnd
