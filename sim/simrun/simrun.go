// Package simrun is the engine-side framework shared by the simulation
// engines: seeded search over run indices, exact replay of a recorded tape,
// and tape minimisation. One run is a pure function of its tape.
package simrun

import (
	"encoding/json"
	"flag"
	"fmt"
	"os"
	"runtime"
	"sort"
	"strings"
	"time"

	"github.com/cosmos/cosmos-proto/internal/verifsim/simhook"
)

// Violation is what an oracle reports. Class is the stable part used for
// minimisation ("same violation class persists") and for known-findings
// signatures; Detail is for the human reading the replay file.
type Violation struct {
	Class  string                 `json:"class"`
	Detail map[string]interface{} `json:"detail,omitempty"`
}

// Ctx is handed to every run.
type Ctx struct {
	T       *simhook.Tape
	Stats   *Stats
	Trace   []string // decoded, human-readable trace of this run
	obs     uint64
	Sample  interface{}
	// Result is a digest of what the run computed that must not depend on the
	// build (simulated / native / toolchain); compared across builds.
	Result  uint64
	Variant string
	Tier    string
	// Params are engine parameters fixed for a whole batch (never drawn).
	Params map[string]string
	// EngineError is set by a run that could not evaluate the property at all
	// (harness trouble): reported as exit 2, never as a violation.
	EngineError string
}

func (c *Ctx) Tracef(format string, a ...interface{}) {
	if len(c.Trace) < 4000 {
		c.Trace = append(c.Trace, fmt.Sprintf(format, a...))
	}
}

// Observe folds an observation into the run's event-log hash.
func (c *Ctx) Observe(words ...uint64) {
	c.obs = simhook.Mix(append([]uint64{c.obs}, words...)...)
}
func (c *Ctx) ObserveBytes(b []byte) {
	c.obs = simhook.Mix(c.obs, simhook.HashString(string(b)), uint64(len(b)))
}

// Stats are counters accumulated over a batch.
type Stats struct {
	C map[string]int64
}

func (s *Stats) Add(name string, n int64) {
	if s.C == nil {
		s.C = map[string]int64{}
	}
	s.C[name] += n
}
func (s *Stats) Max(name string, n int64) {
	if s.C == nil {
		s.C = map[string]int64{}
	}
	if n > s.C[name] {
		s.C[name] = n
	}
}

type Engine struct {
	Name     string
	Property string
	// Run executes one simulation from the tape and returns nil when every
	// oracle held.
	Run func(c *Ctx) *Violation
	// Init is called once per process before any run.
	Init func(params map[string]string) error
	// Finish may add process-wide stats after a batch.
	Finish func(s *Stats, extra map[string]interface{})
}

type RunRecord struct {
	Run      int    `json:"run"`
	LogHash  string `json:"log_hash"`
	Result   string `json:"result,omitempty"`
	Draws    int    `json:"draws"`
}

type FoundViolation struct {
	Run       int        `json:"run"`
	Seed      uint64     `json:"seed"`
	Violation *Violation `json:"violation"`
	Tape      []int      `json:"tape"`
	Labels    []string   `json:"labels,omitempty"`
	Trace     []string   `json:"trace,omitempty"`
}

type BatchResult struct {
	Engine      string                 `json:"engine"`
	Property    string                 `json:"property"`
	Variant     string                 `json:"variant"`
	GoVersion   string                 `json:"go_version"`
	Gomaxprocs  int                    `json:"gomaxprocs"`
	Seed        uint64                 `json:"seed"`
	From        int                    `json:"from"`
	Runs        int                    `json:"runs"`
	WallS       float64                `json:"wall_s"`
	Stats       map[string]int64       `json:"stats"`
	Records     []RunRecord            `json:"records,omitempty"`
	Violations  []FoundViolation       `json:"violations,omitempty"`
	Samples     []interface{}          `json:"samples,omitempty"`
	Extra       map[string]interface{} `json:"extra,omitempty"`
	EngineError string                 `json:"engine_error,omitempty"`
	DistinctSet []string               `json:"distinct_set,omitempty"`
}

// RunSeed derives the tape seed of run i; the run index, not the worker,
// determines the seed, so results are identical at every worker count.
func RunSeed(seed uint64, property string, run int) uint64 {
	return simhook.Mix(seed, simhook.HashString(property), uint64(run))
}

func execute(e *Engine, t *simhook.Tape, st *Stats, variant, tier string, params map[string]string) (c *Ctx, v *Violation) {
	c = &Ctx{T: t, Stats: st, Variant: variant, Tier: tier, Params: params}
	defer func() {
		if r := recover(); r != nil {
			buf := make([]byte, 1<<14)
			buf = buf[:runtime.Stack(buf, false)]
			c.EngineError = fmt.Sprintf("harness panic: %v\n%s", r, buf)
			v = nil
		}
		simhook.Ord = nil
	}()
	v = e.Run(c)
	if t.Overflow && v == nil {
		st.Add("tape_overflow_runs", 1)
	}
	return c, v
}

func parseParams(s string) map[string]string {
	m := map[string]string{}
	for _, kv := range strings.Split(s, ",") {
		if kv == "" {
			continue
		}
		i := strings.IndexByte(kv, '=')
		if i < 0 {
			m[kv] = "1"
		} else {
			m[kv[:i]] = kv[i+1:]
		}
	}
	return m
}

// Main implements the worker command line:
//
//	search   -seed S -from A -count N [-stride K] [-budget secs] -out FILE
//	replay   -in TAPEFILE [-out FILE]
//	minimise -in TAPEFILE -out FILE [-budget secs]
func Main(e *Engine) {
	if len(os.Args) < 2 {
		fmt.Fprintln(os.Stderr, "usage: search|replay|minimise ...")
		os.Exit(2)
	}
	mode := os.Args[1]
	fs := flag.NewFlagSet(mode, flag.ExitOnError)
	seed := fs.Uint64("seed", 1, "VERIF_SEED")
	from := fs.Int("from", 0, "first run index")
	count := fs.Int("count", 100, "number of run indices")
	stride := fs.Int("stride", 1, "run index stride (sharding)")
	budget := fs.Float64("budget", 0, "wall-clock budget in seconds (0 = none)")
	out := fs.String("out", "", "result file")
	in := fs.String("in", "", "tape file")
	variant := fs.String("variant", "", "variant label")
	tier := fs.String("tier", "quick", "tier")
	records := fs.Bool("records", false, "emit per-run event-log hashes")
	paramStr := fs.String("params", "", "k=v,... engine parameters")
	maxViol := fs.Int("maxviol", 3, "stop after this many violations")
	fs.Parse(os.Args[2:])
	params := parseParams(*paramStr)
	if e.Init != nil {
		if err := e.Init(params); err != nil {
			fmt.Fprintln(os.Stderr, "engine init:", err)
			os.Exit(2)
		}
	}
	switch mode {
	case "search":
		stallOut = *out
		res := search(e, *seed, *from, *count, *stride, *budget, *variant, *tier, *records, params, *maxViol)
		writeJSON(*out, res)
		if res.EngineError != "" {
			fmt.Fprintln(os.Stderr, "ENGINE-ERROR:", res.EngineError)
			os.Exit(2)
		}
		if len(res.Violations) > 0 {
			os.Exit(1)
		}
	case "replay":
		var fv FoundViolation
		readJSON(*in, &fv)
		st := &Stats{}
		c, v := execute(e, simhook.NewReplayTape(fv.Tape), st, *variant, *tier, params)
		res := map[string]interface{}{"violation": v, "trace": c.Trace, "log_hash": fmt.Sprintf("%016x", simhook.Mix(c.T.Hash(), c.obs)), "engine_error": c.EngineError, "labels": labels(c.T)}
		writeJSON(*out, res)
		if c.EngineError != "" {
			fmt.Fprintln(os.Stderr, "ENGINE-ERROR:", c.EngineError)
			os.Exit(2)
		}
		if v != nil {
			fmt.Printf("REPRODUCED class=%s\n", v.Class)
			os.Exit(1)
		}
		fmt.Println("NOT-REPRODUCED")
	case "minimise":
		var fv FoundViolation
		readJSON(*in, &fv)
		min := minimise(e, &fv, *budget, *variant, *tier, params)
		writeJSON(*out, min)
	default:
		fmt.Fprintln(os.Stderr, "unknown mode", mode)
		os.Exit(2)
	}
}

func labels(t *simhook.Tape) []string {
	out := make([]string, len(t.Rec))
	for i, d := range t.Rec {
		out[i] = fmt.Sprintf("%s/%d=%d", d.L, d.N, d.V)
	}
	return out
}

var stallOut string

func search(e *Engine, seed uint64, from, count, stride int, budget float64, variant, tier string, records bool, params map[string]string, maxViol int) *BatchResult {
	st := &Stats{}
	res := &BatchResult{Engine: e.Name, Property: e.Property, Variant: variant, GoVersion: runtime.Version(),
		Gomaxprocs: runtime.GOMAXPROCS(0), Seed: seed, From: from, Extra: map[string]interface{}{}}
	start := time.Now()
	distinct := map[string]struct{}{}
	simhook.OnStallExit = func() {
		// see simhook.Sched.ExitOnStall: hand in what was explored and stop
		st.Add("runs_abandoned_lock_held_across_a_yield_point", 1)
		st.Add("worker_stopped_early_after_stall", 1)
		res.WallS = time.Since(start).Seconds()
		res.Stats = st.C
		writeJSON(stallOut, res)
		os.Exit(0)
	}
	for k := 0; k < count; k++ {
		run := from + k*stride
		if budget > 0 && time.Since(start).Seconds() > budget {
			break
		}
		t := simhook.NewSearchTape(RunSeed(seed, e.Property, run))
		t0 := time.Now()
		c, v := execute(e, t, st, variant, tier, params)
		st.Max("max_run_wall_ms", time.Since(t0).Milliseconds())
		if time.Since(t0) > 2*time.Second {
			st.Add("runs_slower_than_2s", 1)
			if f := os.Getenv("VERIFSIM_SLOWLOG"); f != "" {
				// debugging aid: which runs were slow
				if fh, err := os.OpenFile(f, os.O_APPEND|os.O_CREATE|os.O_WRONLY, 0o644); err == nil {
					first := ""
					if len(c.Trace) > 0 {
						first = c.Trace[0]
						if len(first) > 300 {
							first = first[:300]
						}
					}
					fmt.Fprintf(fh, "run %d: %d ms: %s\n", run, time.Since(t0).Milliseconds(), first)
					fh.Close()
				}
			}
		}
		res.Runs++
		if c.EngineError != "" {
			res.EngineError = fmt.Sprintf("run %d: %s", run, c.EngineError)
			break
		}
		if records {
			res.Records = append(res.Records, RunRecord{Run: run, LogHash: fmt.Sprintf("%016x", simhook.Mix(t.Hash(), c.obs)), Result: fmt.Sprintf("%016x", c.Result), Draws: len(t.Rec)})
		}
		if c.Sample != nil && len(res.Samples) < 3 {
			res.Samples = append(res.Samples, c.Sample)
		}
		_ = distinct
		if v != nil {
			res.Violations = append(res.Violations, FoundViolation{Run: run, Seed: seed, Violation: v, Tape: t.Values(), Labels: labels(t), Trace: c.Trace})
			if len(res.Violations) >= maxViol {
				break
			}
		}
	}
	res.WallS = time.Since(start).Seconds()
	if e.Finish != nil {
		e.Finish(st, res.Extra)
	}
	res.Stats = st.C
	return res
}

// minimise shrinks the tape Hypothesis-style while the same violation class
// persists. Every candidate is executed for real.
func minimise(e *Engine, fv *FoundViolation, budget float64, variant, tier string, params map[string]string) *FoundViolation {
	start := time.Now()
	if budget <= 0 {
		budget = 60
	}
	class := fv.Violation.Class
	best := append([]int{}, fv.Tape...)
	bestV := fv.Violation
	var bestTrace []string
	var bestLabels []string
	execs := 0
	try := func(cand []int) bool {
		if time.Since(start).Seconds() > budget {
			return false
		}
		execs++
		st := &Stats{}
		c, v := execute(e, simhook.NewReplayTape(cand), st, variant, tier, params)
		if c.EngineError != "" || v == nil || v.Class != class {
			return false
		}
		// keep the candidate, cut to what was actually consumed; an exhausted
		// tape yields zeros, so trailing zeros carry no information
		vals := c.T.Values()
		if len(vals) < len(cand) {
			cand = cand[:len(vals)]
		}
		for len(cand) > 0 && cand[len(cand)-1] == 0 {
			cand = cand[:len(cand)-1]
		}
		best = append([]int{}, cand...)
		bestV = v
		bestTrace = c.Trace
		bestLabels = labels(c.T)
		return true
	}
	// make sure the original reproduces in this process
	if !try(best) {
		fv.Trace = append(fv.Trace, "minimise: original tape did not reproduce in the minimiser process; left unminimised")
		return fv
	}
	improved := true
	for improved && time.Since(start).Seconds() < budget {
		improved = false
		// 1. delete chunks
		for size := 64; size >= 1; size /= 2 {
			for i := 0; i+size <= len(best); {
				cand := append(append([]int{}, best[:i]...), best[i+size:]...)
				if try(cand) {
					improved = true
				} else {
					i += size
				}
			}
		}
		// 2. zero chunks, then single values
		for size := 16; size >= 1; size /= 4 {
			for i := 0; i+size <= len(best); i += size {
				all0 := true
				for _, x := range best[i : i+size] {
					if x != 0 {
						all0 = false
					}
				}
				if all0 {
					continue
				}
				cand := append([]int{}, best...)
				for j := i; j < i+size; j++ {
					cand[j] = 0
				}
				if try(cand) {
					improved = true
				}
			}
		}
		// 3. lower single values
		for i := 0; i < len(best); i++ {
			for i < len(best) && best[i] > 0 {
				ok := false
				for _, nv := range []int{best[i] / 2, best[i] - 1} {
					if nv >= best[i] {
						continue
					}
					cand := append([]int{}, best...)
					cand[i] = nv
					if try(cand) {
						ok = true
						improved = true
						break
					}
				}
				if !ok {
					break
				}
			}
		}
	}
	out := &FoundViolation{Run: fv.Run, Seed: fv.Seed, Violation: bestV, Tape: best, Labels: bestLabels, Trace: bestTrace}
	out.Trace = append(out.Trace, fmt.Sprintf("minimise: %d -> %d draws in %d executions, %.1fs", len(fv.Tape), len(best), execs, time.Since(start).Seconds()))
	return out
}

func writeJSON(path string, v interface{}) {
	b, err := json.MarshalIndent(v, "", " ")
	if err != nil {
		fmt.Fprintln(os.Stderr, "json:", err)
		os.Exit(2)
	}
	if path == "" || path == "-" {
		os.Stdout.Write(append(b, '\n'))
		return
	}
	if err := os.WriteFile(path, b, 0o644); err != nil {
		fmt.Fprintln(os.Stderr, "write:", err)
		os.Exit(2)
	}
}

func readJSON(path string, v interface{}) {
	b, err := os.ReadFile(path)
	if err != nil {
		fmt.Fprintln(os.Stderr, "read:", err)
		os.Exit(2)
	}
	if err := json.Unmarshal(b, v); err != nil {
		fmt.Fprintln(os.Stderr, "json:", err)
		os.Exit(2)
	}
}

// SortedKeys is a helper for deterministic output of harness-side maps.
func SortedKeys(m map[string]int64) []string {
	ks := make([]string, 0, len(m))
	for k := range m {
		ks = append(ks, k)
	}
	sort.Strings(ks)
	return ks
}
