// Package shapesdesc builds the simulation corpus schemas directly as
// descriptors (there is no protoc in the sandbox). The generated Go package
// for them is produced at check time by the working-tree plugin.
package shapesdesc

import (
	"fmt"

	"google.golang.org/protobuf/proto"
	"google.golang.org/protobuf/types/descriptorpb"
)

const (
	GoPkg     = "github.com/cosmos/cosmos-proto/internal/verifsim/shapes"
	ProtoPkg  = "verifsim.shapes"
	MainFile  = "verifsim/shapes/shapes.proto"
	ExtraFile = "verifsim/shapes/extra.proto"
)

type T = descriptorpb.FieldDescriptorProto_Type

var scalarTypes = []struct {
	name string
	t    T
}{
	{"double", descriptorpb.FieldDescriptorProto_TYPE_DOUBLE},
	{"float", descriptorpb.FieldDescriptorProto_TYPE_FLOAT},
	{"int32", descriptorpb.FieldDescriptorProto_TYPE_INT32},
	{"int64", descriptorpb.FieldDescriptorProto_TYPE_INT64},
	{"uint32", descriptorpb.FieldDescriptorProto_TYPE_UINT32},
	{"uint64", descriptorpb.FieldDescriptorProto_TYPE_UINT64},
	{"sint32", descriptorpb.FieldDescriptorProto_TYPE_SINT32},
	{"sint64", descriptorpb.FieldDescriptorProto_TYPE_SINT64},
	{"fixed32", descriptorpb.FieldDescriptorProto_TYPE_FIXED32},
	{"fixed64", descriptorpb.FieldDescriptorProto_TYPE_FIXED64},
	{"sfixed32", descriptorpb.FieldDescriptorProto_TYPE_SFIXED32},
	{"sfixed64", descriptorpb.FieldDescriptorProto_TYPE_SFIXED64},
	{"bool", descriptorpb.FieldDescriptorProto_TYPE_BOOL},
	{"string", descriptorpb.FieldDescriptorProto_TYPE_STRING},
	{"bytes", descriptorpb.FieldDescriptorProto_TYPE_BYTES},
}

var keyTypes = []string{"bool", "int32", "int64", "uint32", "uint64", "sint32", "sint64", "fixed32", "fixed64", "sfixed32", "sfixed64", "string"}
var valTypes = []string{"int32", "uint64", "sint64", "fixed32", "sfixed64", "float", "double", "string", "bytes", "enum", "leaf"}

func typeOf(name string) T {
	for _, s := range scalarTypes {
		if s.name == name {
			return s.t
		}
	}
	panic("unknown scalar " + name)
}

func camel(s string) string {
	out := []byte{}
	up := true
	for i := 0; i < len(s); i++ {
		c := s[i]
		if c == '_' {
			up = true
			continue
		}
		if up && c >= 'a' && c <= 'z' {
			c -= 32
		}
		up = false
		out = append(out, c)
	}
	return string(out)
}

type msgBuilder struct {
	m    *descriptorpb.DescriptorProto
	full string // fully qualified name with leading dot
}

func newMsg(name, parentFull string) *msgBuilder {
	return &msgBuilder{m: &descriptorpb.DescriptorProto{Name: proto.String(name)}, full: parentFull + "." + name}
}

func (b *msgBuilder) scalar(name string, num int32, t T) *descriptorpb.FieldDescriptorProto {
	f := &descriptorpb.FieldDescriptorProto{Name: proto.String(name), Number: proto.Int32(num), Type: t.Enum(),
		Label: descriptorpb.FieldDescriptorProto_LABEL_OPTIONAL.Enum(), JsonName: proto.String(jsonName(name))}
	b.m.Field = append(b.m.Field, f)
	return f
}

func jsonName(s string) string {
	c := camel(s)
	if len(c) > 0 && c[0] >= 'A' && c[0] <= 'Z' {
		c = string(c[0]+32) + c[1:]
	}
	return c
}

func (b *msgBuilder) repeated(name string, num int32, t T) *descriptorpb.FieldDescriptorProto {
	f := b.scalar(name, num, t)
	f.Label = descriptorpb.FieldDescriptorProto_LABEL_REPEATED.Enum()
	return f
}

func (b *msgBuilder) message(name string, num int32, typeName string) *descriptorpb.FieldDescriptorProto {
	f := b.scalar(name, num, descriptorpb.FieldDescriptorProto_TYPE_MESSAGE)
	f.TypeName = proto.String(typeName)
	return f
}

func (b *msgBuilder) enum(name string, num int32, typeName string) *descriptorpb.FieldDescriptorProto {
	f := b.scalar(name, num, descriptorpb.FieldDescriptorProto_TYPE_ENUM)
	f.TypeName = proto.String(typeName)
	return f
}

// mapField adds map<key, val> name = num. val is a scalar name, "enum:<type>"
// or "msg:<type>".
func (b *msgBuilder) mapField(name string, num int32, key string, valKind T, valTypeName string) {
	entryName := camel(name) + "Entry"
	e := &descriptorpb.DescriptorProto{
		Name:    proto.String(entryName),
		Options: &descriptorpb.MessageOptions{MapEntry: proto.Bool(true)},
	}
	e.Field = append(e.Field, &descriptorpb.FieldDescriptorProto{Name: proto.String("key"), Number: proto.Int32(1),
		Type: typeOf(key).Enum(), Label: descriptorpb.FieldDescriptorProto_LABEL_OPTIONAL.Enum(), JsonName: proto.String("key")})
	vf := &descriptorpb.FieldDescriptorProto{Name: proto.String("value"), Number: proto.Int32(2),
		Type: valKind.Enum(), Label: descriptorpb.FieldDescriptorProto_LABEL_OPTIONAL.Enum(), JsonName: proto.String("value")}
	if valTypeName != "" {
		vf.TypeName = proto.String(valTypeName)
	}
	e.Field = append(e.Field, vf)
	b.m.NestedType = append(b.m.NestedType, e)
	f := b.message(name, num, b.full+"."+entryName)
	f.Label = descriptorpb.FieldDescriptorProto_LABEL_REPEATED.Enum()
}

func (b *msgBuilder) oneof(name string) int32 {
	b.m.OneofDecl = append(b.m.OneofDecl, &descriptorpb.OneofDescriptorProto{Name: proto.String(name)})
	return int32(len(b.m.OneofDecl) - 1)
}

// Files returns the corpus file descriptors (main file and a second file of
// the same Go package that imports it).
func Files() []*descriptorpb.FileDescriptorProto {
	pkgDot := "." + ProtoPkg
	color := &descriptorpb.EnumDescriptorProto{Name: proto.String("Color")}
	for _, v := range []struct {
		n string
		v int32
	}{{"COLOR_ZERO", 0}, {"COLOR_RED", 1}, {"COLOR_BLUE", 2}, {"COLOR_NEG", -1}, {"COLOR_BIG", 2147483647}} {
		color.Value = append(color.Value, &descriptorpb.EnumValueDescriptorProto{Name: proto.String(v.n), Number: proto.Int32(v.v)})
	}

	leaf := newMsg("Leaf", pkgDot)
	leaf.scalar("s", 1, typeOf("string"))
	leaf.scalar("i", 2, typeOf("int32"))
	leaf.scalar("b", 3, typeOf("bytes"))
	leaf.mapField("m", 4, "string", typeOf("int32"), "")
	leaf.mapField("bm", 5, "bool", typeOf("bytes"), "")
	leaf.repeated("rb", 6, typeOf("bytes")) // repeated bytes/string with one-byte tags
	leaf.repeated("rs", 7, typeOf("string"))
	leaf.repeated("ri", 8, typeOf("sint32"))

	// Nested.Leaf shares its short name with the top-level Leaf.
	nested := newMsg("Nested", pkgDot)
	nleaf := newMsg("Leaf", nested.full)
	nleaf.scalar("v", 1, typeOf("int64"))
	nleaf.mapField("m", 2, "uint32", typeOf("string"), "")
	deeper := newMsg("Nested", nleaf.full) // Nested.Leaf.Nested: same short name as its grandparent
	deeper.mapField("m", 1, "sint64", typeOf("bool"), "")
	deeper.scalar("x", 2, typeOf("fixed64"))
	nleaf.m.NestedType = append(nleaf.m.NestedType, deeper.m)
	nleaf.message("deeper", 3, deeper.full)
	nested.m.NestedType = append(nested.m.NestedType, nleaf.m)
	nested.message("leaf", 1, nleaf.full)
	nested.mapField("leafs", 2, "string", descriptorpb.FieldDescriptorProto_TYPE_MESSAGE, nleaf.full)
	nested.message("top_leaf", 3, leaf.full)

	sh := newMsg("Shapes", pkgDot)
	n := int32(1)
	for _, s := range scalarTypes {
		sh.scalar("s_"+s.name, n, s.t)
		n++
	}
	sh.enum("s_enum", n, pkgDot+".Color")
	n = 21
	for _, s := range scalarTypes {
		sh.repeated("r_"+s.name, n, s.t)
		n++
	}
	f := sh.enum("r_enum", n, pkgDot+".Color")
	f.Label = descriptorpb.FieldDescriptorProto_LABEL_REPEATED.Enum()

	sh.message("child", 40, sh.full)
	sh.message("children", 41, sh.full).Label = descriptorpb.FieldDescriptorProto_LABEL_REPEATED.Enum()
	sh.mapField("kids", 42, "string", descriptorpb.FieldDescriptorProto_TYPE_MESSAGE, sh.full)
	sh.mapField("ikids", 43, "int32", descriptorpb.FieldDescriptorProto_TYPE_MESSAGE, sh.full)
	sh.message("leaf", 44, leaf.full)
	sh.message("leaves", 45, leaf.full).Label = descriptorpb.FieldDescriptorProto_LABEL_REPEATED.Enum()
	sh.message("nested", 46, nested.full)

	o1 := sh.oneof("first")
	sh.message("o_shapes", 50, sh.full).OneofIndex = proto.Int32(o1)
	sh.scalar("o_str", 51, typeOf("string")).OneofIndex = proto.Int32(o1)
	sh.scalar("o_bytes", 52, typeOf("bytes")).OneofIndex = proto.Int32(o1)
	sh.scalar("o_u32", 53, typeOf("uint32")).OneofIndex = proto.Int32(o1)
	sh.message("o_leaf", 54, leaf.full).OneofIndex = proto.Int32(o1)
	sh.scalar("o_bool", 55, typeOf("bool")).OneofIndex = proto.Int32(o1)
	sh.scalar("o_double", 56, typeOf("double")).OneofIndex = proto.Int32(o1)
	sh.enum("o_color", 57, pkgDot+".Color").OneofIndex = proto.Int32(o1)
	o2 := sh.oneof("second")
	sh.scalar("p_i64", 60, typeOf("int64")).OneofIndex = proto.Int32(o2)
	sh.message("p_nested", 61, nested.full).OneofIndex = proto.Int32(o2)
	sh.scalar("p_float", 62, typeOf("float")).OneofIndex = proto.Int32(o2)
	sh.scalar("p_sfixed32", 63, typeOf("sfixed32")).OneofIndex = proto.Int32(o2)
	sh.scalar("p_fixed64", 64, typeOf("fixed64")).OneofIndex = proto.Int32(o2)

	sh.message("any", 70, ".google.protobuf.Any")
	sh.message("ts", 71, ".google.protobuf.Timestamp")
	sh.message("dur", 72, ".google.protobuf.Duration")
	sh.message("anys", 73, ".google.protobuf.Any").Label = descriptorpb.FieldDescriptorProto_LABEL_REPEATED.Enum()
	sh.mapField("tsmap", 74, "string", descriptorpb.FieldDescriptorProto_TYPE_MESSAGE, ".google.protobuf.Timestamp")
	sh.mapField("anymap", 75, "string", descriptorpb.FieldDescriptorProto_TYPE_MESSAGE, ".google.protobuf.Any")
	sh.mapField("durmap", 76, "int32", descriptorpb.FieldDescriptorProto_TYPE_MESSAGE, ".google.protobuf.Duration")

	sh.scalar("type", 80, typeOf("string"))
	sh.scalar("descriptor", 81, typeOf("int32"))
	sh.scalar("range", 82, typeOf("bool"))
	sh.mapField("get", 83, "string", typeOf("string"), "")

	up := sh.repeated("unpacked", 90, typeOf("int32"))
	up.Options = &descriptorpb.FieldOptions{Packed: proto.Bool(false)}
	up2 := sh.repeated("unpacked_sint64", 91, typeOf("sint64"))
	up2.Options = &descriptorpb.FieldOptions{Packed: proto.Bool(false)}

	sh.scalar("tag2047", 2047, typeOf("uint32"))
	sh.scalar("tag2048", 2048, typeOf("string"))
	sh.scalar("tag262144", 262144, typeOf("int64"))
	sh.scalar("tag33554432", 33554432, typeOf("bytes"))
	sh.mapField("tagmax", 536870911, "string", typeOf("string"), "")
	sh.mapField("tagbig", 268435456, "int64", descriptorpb.FieldDescriptorProto_TYPE_MESSAGE, leaf.full)

	num := int32(100)
	for _, k := range keyTypes {
		for _, v := range valTypes {
			name := fmt.Sprintf("m_%s_%s", k, v)
			switch v {
			case "enum":
				sh.mapField(name, num, k, descriptorpb.FieldDescriptorProto_TYPE_ENUM, pkgDot+".Color")
			case "leaf":
				sh.mapField(name, num, k, descriptorpb.FieldDescriptorProto_TYPE_MESSAGE, leaf.full)
			default:
				sh.mapField(name, num, k, typeOf(v), "")
			}
			num++
		}
	}
	sh.mapField("m_bool_bool", num, "bool", typeOf("bool"), "")
	num++
	sh.mapField("m_string_nested", num, "string", descriptorpb.FieldDescriptorProto_TYPE_MESSAGE, nested.full)

	mainFD := &descriptorpb.FileDescriptorProto{
		Name:        proto.String(MainFile),
		Package:     proto.String(ProtoPkg),
		Syntax:      proto.String("proto3"),
		Dependency:  []string{"google/protobuf/any.proto", "google/protobuf/timestamp.proto", "google/protobuf/duration.proto"},
		Options:     &descriptorpb.FileOptions{GoPackage: proto.String(GoPkg)},
		EnumType:    []*descriptorpb.EnumDescriptorProto{color},
		MessageType: []*descriptorpb.DescriptorProto{leaf.m, nested.m, sh.m},
	}

	ex := newMsg("Extra", pkgDot)
	ex.message("s", 1, sh.full)
	ex.mapField("m", 2, "int64", descriptorpb.FieldDescriptorProto_TYPE_MESSAGE, leaf.full)
	ex.message("list", 3, sh.full).Label = descriptorpb.FieldDescriptorProto_LABEL_REPEATED.Enum()
	ex.mapField("by_color", 4, "int32", descriptorpb.FieldDescriptorProto_TYPE_ENUM, pkgDot+".Color")
	exLeaf := newMsg("Leaf", ex.full) // third message with short name Leaf
	exLeaf.scalar("z", 1, typeOf("string"))
	ex.m.NestedType = append(ex.m.NestedType, exLeaf.m)
	ex.message("own_leaf", 5, exLeaf.full)
	// Mutually recursive types whose only maps live in a third type: Node ->
	// Link -> Node, Node -> Leaf{maps}. Whoever decides per type whether a map
	// is reachable has to get cycles right, from whichever type it starts and
	// whichever field comes first (NodeB declares the leaf before the cycle).
	cleaf := newMsg("CycleLeaf", pkgDot)
	cleaf.mapField("attrs", 1, "string", typeOf("int32"), "")
	cleaf.mapField("more", 2, "int64", typeOf("string"), "")
	cnode := newMsg("CycleNode", pkgDot)
	clink := newMsg("CycleLink", pkgDot)
	cnode.message("next", 1, clink.full)
	cnode.message("leaf", 2, cleaf.full)
	cnode.message("links", 3, clink.full).Label = descriptorpb.FieldDescriptorProto_LABEL_REPEATED.Enum()
	clink.message("node", 1, cnode.full)
	clink.scalar("tag", 2, typeOf("string"))
	cnodeB := newMsg("CycleNodeB", pkgDot)
	clinkB := newMsg("CycleLinkB", pkgDot)
	chop := newMsg("CycleHop", pkgDot)
	cnodeB.message("leaf", 1, cleaf.full)
	cnodeB.message("next", 2, clinkB.full)
	clinkB.message("hop", 1, chop.full) // a cycle of three
	chop.message("node", 1, cnodeB.full)
	chop.scalar("n", 2, typeOf("uint32"))
	ex.mapField("shapes_by_name", 8, "string", descriptorpb.FieldDescriptorProto_TYPE_MESSAGE, sh.full)
	ex.message("cycle", 6, cnode.full)
	ex.message("cycle_b", 7, clinkB.full)
	extraFD := &descriptorpb.FileDescriptorProto{
		Name:        proto.String(ExtraFile),
		Package:     proto.String(ProtoPkg),
		Syntax:      proto.String("proto3"),
		Dependency:  []string{MainFile},
		Options:     &descriptorpb.FileOptions{GoPackage: proto.String(GoPkg)},
		MessageType: []*descriptorpb.DescriptorProto{ex.m, cleaf.m, cnode.m, clink.m, cnodeB.m, clinkB.m, chop.m},
	}
	return []*descriptorpb.FileDescriptorProto{mainFD, extraFD}
}
