package shapesdesc

import (
	"fmt"
	"strings"

	"github.com/cosmos/cosmos-proto/internal/verifsim/simhook"
	"google.golang.org/protobuf/proto"
	"google.golang.org/protobuf/types/descriptorpb"
)

// RandomSet draws a set of proto files (topologically ordered): several
// packages, cross-package imports, nested messages that share short names
// under different parents, enums, oneofs, maps, services. The set is valid by
// construction; it need not compile once generated (whether generated code
// compiles is another property) - engine C only needs the plugin to answer.
type RandomOpts struct {
	AllowProto2   bool
	ReservedNames bool
	Extensions    bool
	Services      bool
	// CrossPackage: at least two Go packages, every file importing all earlier
	// ones (so that messages of one package are fields, list elements and map
	// values of another).
	CrossPackage bool
	// Tag, when set, selects the compilable flavour used as extra corpus for the
	// codec engines: Go packages under internal/verifsim/rnd/<Tag>p<k>.
	Tag string
	// LegacyPaths: now and then two of the Go packages get the old and the new
	// import path of a module that was renamed at some point (gogo/protobuf ->
	// cosmos/gogoproto, ...), with the same base name, and a third package
	// imports both. Requests only (nothing of it is compiled).
	LegacyPaths bool
}

// pairs of Go import paths: a module before and after it was moved or renamed
var legacyPairs = [][2]string{
	{"github.com/gogo/protobuf/types", "github.com/cosmos/gogoproto/types"},
	{"github.com/gogo/protobuf/gogoproto", "github.com/cosmos/gogoproto/gogoproto"},
	{"github.com/golang/protobuf/ptypes/any", "google.golang.org/protobuf/types/known/anypb"},
	{"github.com/regen-network/cosmos-proto", "github.com/cosmos/cosmos-proto"},
	{"github.com/tendermint/tendermint/proto/tendermint/types", "github.com/cometbft/cometbft/proto/tendermint/types"},
	{"github.com/cosmos/cosmos-sdk/types", "cosmossdk.io/types"},
}

const RndGoPrefix = "github.com/cosmos/cosmos-proto/internal/verifsim/rnd/"

var nestedNamePool = []string{"Leaf", "Inner", "Node", "Item", "Leaf", "Data"}
var reservedWords = []string{"type", "descriptor", "range", "get", "set", "has", "clear", "new", "interface", "mutable", "new_field", "which_oneof", "is_valid", "proto_methods", "get_unknown", "set_unknown", "reset", "string", "proto_message", "proto_reflect",
	// names that only collide after the generator's own renaming (Type -> Type_)
	"type_", "get_", "descriptor_", "range_", "set_"}
var oneofSafeScalars = []string{"double", "float", "int32", "int64", "uint32", "uint64", "fixed32", "fixed64", "sfixed32", "sfixed64", "bool", "string", "bytes"}
var mapKeyScalars = keyTypes

type rmsg struct {
	full string // .pkg.Outer.Inner
	file int
}
type renum struct {
	full string
	file int
}

// DescriptorFile is imported by files that declare custom options.
const DescriptorFile = "google/protobuf/descriptor.proto"

var optionTargets = []string{".google.protobuf.MessageOptions", ".google.protobuf.FieldOptions", ".google.protobuf.FileOptions", ".google.protobuf.MethodOptions",
	".google.protobuf.EnumOptions", ".google.protobuf.ServiceOptions", ".google.protobuf.OneofOptions", ".google.protobuf.EnumValueOptions"}

var topNamePool = []string{"Params", "Msg", "Request", "Response", "Item", "Config", "Leaf", "State"}
var enumNamePool = []string{"Kind", "Status", "Mode"}

type randomGen struct {
	baseNames []string        // per package: base name of its Go import path (nil: pkgN)
	goPaths   []string        // per package: the whole Go import path (nil: see baseNames)
	forceImports bool         // every file imports all earlier files
	filePkg []int             // package index of every file
	usedTop map[string]bool // proto package + "." + name
	t     *simhook.Tape
	opts  RandomOpts
	msgs  []rmsg
	enums []renum
	files []*descriptorpb.FileDescriptorProto
	deps  [][]int // file -> imported file indices
	uniq  int
}

func RandomSet(t *simhook.Tape, opts RandomOpts) []*descriptorpb.FileDescriptorProto {
	g := &randomGen{t: t, opts: opts, usedTop: map[string]bool{}}
	nFiles := 1 + t.Draw("rs.files", 4)
	nPkgs := 1 + t.Draw("rs.pkgs", 3)
	if opts.Tag == "" && t.Chance("rs.collidingbases", 1, 2) {
		for i := 0; i < nPkgs; i++ {
			g.baseNames = append(g.baseNames, []string{"v1beta1", "v1", "types"}[t.Draw("rs.basename", 3)])
		}
	}
	if opts.Tag == "" && opts.LegacyPaths && t.Chance("rs.legacy", 1, 5) {
		pair := legacyPairs[t.Draw("rs.legacypair", len(legacyPairs))]
		g.goPaths = []string{pair[0], pair[1], "example.com/rnd/app"}
		if t.Chance("rs.legacyswap", 1, 2) {
			g.goPaths[0], g.goPaths[1] = pair[1], pair[0]
		}
		g.baseNames = nil
		g.forceImports = true
		g.genFile(0, 0)
		g.genFile(1, 1)
		nSib := 1 + t.Draw("rs.siblings", 2)
		for i := 0; i < nSib; i++ {
			g.genFile(2+i, 2)
		}
		return g.files
	}
	if opts.Tag == "" && t.Chance("rs.diamond", 1, 4) {
		// two dependency packages whose import paths share their base name, and
		// two or three sibling files of a third package that import both
		nPkgs = 3
		base := []string{"v1beta1", "v1", "types"}[t.Draw("rs.diamondbase", 3)]
		g.baseNames = []string{base, base, "app"}
		g.forceImports = true
		nSib := 2 + t.Draw("rs.siblings", 2)
		g.genFile(0, 0)
		g.genFile(1, 1)
		for i := 0; i < nSib; i++ {
			g.genFile(2+i, 2)
		}
		return g.files
	}
	if opts.CrossPackage {
		if nPkgs < 2 {
			nPkgs = 2
		}
		if nFiles < 3 {
			nFiles = 3
		}
		g.forceImports = true
	}
	for i := 0; i < nFiles; i++ {
		pkg := t.Draw("rs.pkgof", nPkgs)
		if opts.CrossPackage && i < nPkgs {
			pkg = i
		}
		g.genFile(i, pkg)
	}
	return g.files
}

// topName picks a top-level name from a small pool shared by all packages, so
// that different Go packages declare messages with the same Go name; it is
// made unique within its proto package.
func (g *randomGen) topName(pkg string, pool []string, label string) string {
	base := pool[g.t.Draw(label, len(pool))]
	name := base
	for i := 2; g.usedTop[pkg+"."+name]; i++ {
		name = fmt.Sprintf("%s%d", base, i)
	}
	g.usedTop[pkg+"."+name] = true
	return name
}

func (g *randomGen) visible(file int, of int) bool {
	if of == file {
		return true
	}
	for _, d := range g.deps[file] {
		if d == of {
			return true
		}
	}
	return false
}

func (g *randomGen) genFile(idx, pkg int) {
	t := g.t
	pkgName := fmt.Sprintf("rnd.pkg%d", pkg)
	fd := &descriptorpb.FileDescriptorProto{
		Name:    proto.String(fmt.Sprintf("rnd/pkg%d/file%d.proto", pkg, idx)),
		Package: proto.String(pkgName),
		Syntax:  proto.String("proto3"),
		Options: &descriptorpb.FileOptions{GoPackage: proto.String(fmt.Sprintf("example.com/rnd/pkg%d;pkg%d", pkg, pkg))},
	}
	if g.opts.Tag == "" && g.baseNames != nil {
		// Go import paths of different packages may share their base name
		// (.../mod0/v1beta1, .../mod1/v1beta1): protogen then has to invent
		// import aliases per output file
		fd.Options.GoPackage = proto.String(fmt.Sprintf("example.com/rnd/mod%d/%s", pkg, g.baseNames[pkg]))
	}
	if g.opts.Tag == "" && g.goPaths != nil {
		fd.Options.GoPackage = proto.String(g.goPaths[pkg])
	}
	if g.opts.Tag != "" {
		pkgName = fmt.Sprintf("rnd.%s.pkg%d", g.opts.Tag, pkg)
		fd.Name = proto.String(fmt.Sprintf("verifsim/rnd/%s/pkg%d/file%d.proto", g.opts.Tag, pkg, idx))
		fd.Package = proto.String(pkgName)
		fd.Options.GoPackage = proto.String(fmt.Sprintf("%s%sp%d;%sp%d", RndGoPrefix, g.opts.Tag, pkg, g.opts.Tag, pkg))
	}
	proto2 := g.opts.AllowProto2 && t.Chance("rs.proto2", 1, 12)
	if proto2 {
		fd.Syntax = proto.String("proto2")
	}
	var deps []int
	for j := 0; j < idx; j++ {
		if g.files[j].GetSyntax() == "proto2" {
			continue
		}
		if g.opts.Tag != "" && g.filePkg[j] > pkg {
			continue // compilable flavour: Go packages must not import each other in a cycle
		}
		if g.forceImports || t.Chance("rs.import", 1, 2) {
			deps = append(deps, j)
			fd.Dependency = append(fd.Dependency, g.files[j].GetName())
		}
	}
	g.deps = append(g.deps, deps)
	g.files = append(g.files, fd)
	g.filePkg = append(g.filePkg, pkg)

	nEnums := t.Draw("rs.enums", 3)
	for i := 0; i < nEnums; i++ {
		name := g.topName(pkgName, enumNamePool, "rs.enumname")
		fd.EnumType = append(fd.EnumType, g.genEnum(name))
		g.enums = append(g.enums, renum{"." + pkgName + "." + name, idx})
	}
	nMsgs := 1 + t.Draw("rs.msgs", 4)
	// declare the names first so that messages can refer to later siblings and to themselves
	var tops []*msgBuilder
	for i := 0; i < nMsgs; i++ {
		b := newMsg(g.topName(pkgName, topNamePool, "rs.msgname"), "."+pkgName)
		tops = append(tops, b)
		g.msgs = append(g.msgs, rmsg{b.full, idx})
	}
	for _, b := range tops {
		g.fillMsg(b, idx, 0, proto2)
		fd.MessageType = append(fd.MessageType, b.m)
	}
	if !proto2 && g.opts.Extensions && t.Chance("rs.extensions", 1, 3) {
		// custom options: extensions of descriptor.proto option messages
		fd.Dependency = append(fd.Dependency, DescriptorFile)
		n := 1 + t.Draw("rs.next", 6)
		for i := 0; i < n; i++ {
			ext := &descriptorpb.FieldDescriptorProto{
				Name:     proto.String(fmt.Sprintf("ext_%d_%d", idx, i)),
				Number:   proto.Int32(int32(50000 + idx*100 + i)),
				Label:    descriptorpb.FieldDescriptorProto_LABEL_OPTIONAL.Enum(),
				Extendee: proto.String(optionTargets[t.Draw("rs.exttarget", len(optionTargets))]),
				JsonName: proto.String(fmt.Sprintf("ext%d%d", idx, i)),
			}
			switch t.Draw("rs.exttype", 3) {
			case 0:
				ext.Type = typeOf("string").Enum()
			case 1:
				ext.Type = typeOf(oneofSafeScalars[t.Draw("rs.extscalar", len(oneofSafeScalars))]).Enum()
			case 2:
				ext.Type = descriptorpb.FieldDescriptorProto_TYPE_MESSAGE.Enum()
				ext.TypeName = proto.String(tops[t.Draw("rs.extmsg", len(tops))].full)
			}
			if t.Chance("rs.extnested", 1, 16) {
				// declared inside a message scope (rare: on the current tree the
				// generator emits unparsable code for such a message - a matter
				// for property C12 - and an error response compares nothing)
				scope := tops[t.Draw("rs.extscope", len(tops))]
				scope.m.Extension = append(scope.m.Extension, ext)
				continue
			}
			fd.Extension = append(fd.Extension, ext)
		}
	}
	svcDen := 4
	if g.forceImports && g.opts.Tag == "" {
		svcDen = 2 // files that see several packages: services whose types come from more than one of them
	}
	if !proto2 && g.opts.Services && t.Chance("rs.service", 1, svcDen) && len(tops) > 0 {
		nsvc := 1 + t.Draw("rs.nsvc", 2)
		for si := 0; si < nsvc; si++ {
			svc := &descriptorpb.ServiceDescriptorProto{Name: proto.String(fmt.Sprintf("Svc%d_%d", idx, si))}
			nm := 1 + t.Draw("rs.nmethods", 4)
			for mi := 0; mi < nm; mi++ {
				in, _ := g.pickForeignMsg(idx)
				out, _ := g.pickForeignMsg(idx)
				m := &descriptorpb.MethodDescriptorProto{Name: proto.String(fmt.Sprintf("Call%d", mi)), InputType: proto.String(in), OutputType: proto.String(out)}
				switch t.Draw("rs.streaming", 4) {
				case 1:
					m.ClientStreaming = proto.Bool(true)
				case 2:
					m.ServerStreaming = proto.Bool(true)
				case 3:
					m.ClientStreaming, m.ServerStreaming = proto.Bool(true), proto.Bool(true)
				}
				svc.Method = append(svc.Method, m)
			}
			fd.Service = append(fd.Service, svc)
		}
	}
}

func (g *randomGen) genEnum(name string) *descriptorpb.EnumDescriptorProto {
	e := &descriptorpb.EnumDescriptorProto{Name: proto.String(name)}
	n := 1 + g.t.Draw("rs.enumvals", 4)
	for i := 0; i < n; i++ {
		num := int32(i)
		if i > 0 && g.t.Chance("rs.enumneg", 1, 6) {
			num = -int32(i)
		}
		e.Value = append(e.Value, &descriptorpb.EnumValueDescriptorProto{Name: proto.String(fmt.Sprintf("%s_V%d", name, i)), Number: proto.Int32(num)})
	}
	if g.opts.Tag == "" && n > 1 && g.t.Chance("rs.enumalias", 1, 6) {
		// an alias: a second name for an existing number
		e.Options = &descriptorpb.EnumOptions{AllowAlias: proto.Bool(true)}
		e.Value = append(e.Value, &descriptorpb.EnumValueDescriptorProto{Name: proto.String(name + "_ALIAS"), Number: e.Value[g.t.Draw("rs.aliasof", n)].Number})
	}
	return e
}

func (g *randomGen) fieldName(i int) string {
	if g.opts.ReservedNames && g.t.Chance("rs.reserved", 1, 10) {
		return reservedWords[g.t.Draw("rs.reservedword", len(reservedWords))]
	}
	return fmt.Sprintf("f%d", i)
}

func (g *randomGen) pickMsg(file int) (string, bool) {
	var c []string
	for _, m := range g.msgs {
		if g.visible(file, m.file) {
			c = append(c, m.full)
		}
	}
	if len(c) == 0 {
		return "", false
	}
	return c[g.t.Draw("rs.msgref", len(c))], true
}

// pickForeignMsg prefers a message of another file's Go package (service
// request/response types often live elsewhere and are used nowhere else in
// the file that declares the service).
func (g *randomGen) pickForeignMsg(file int) (string, bool) {
	var c []string
	for _, m := range g.msgs {
		if m.file != file && g.visible(file, m.file) && g.filePkg[m.file] != g.filePkg[file] {
			c = append(c, m.full)
		}
	}
	if len(c) == 0 || g.t.Chance("rs.svclocal", 1, 3) {
		return g.pickMsg(file)
	}
	return c[g.t.Draw("rs.msgrefforeign", len(c))], true
}

func (g *randomGen) pickEnum(file int) (string, bool) {
	var c []string
	for _, m := range g.enums {
		if g.visible(file, m.file) {
			c = append(c, m.full)
		}
	}
	if len(c) == 0 {
		return "", false
	}
	return c[g.t.Draw("rs.enumref", len(c))], true
}

func (g *randomGen) fillMsg(b *msgBuilder, file, depth int, proto2 bool) {
	t := g.t
	// nested declarations first (they become referable)
	if depth < 3 {
		nn := t.Draw("rs.nested", 3)
		used := map[string]bool{}
		for i := 0; i < nn; i++ {
			name := nestedNamePool[t.Draw("rs.nestedname", len(nestedNamePool))]
			if used[name] {
				continue
			}
			used[name] = true
			nb := newMsg(name, b.full)
			g.msgs = append(g.msgs, rmsg{nb.full, file})
			g.fillMsg(nb, file, depth+1, proto2)
			b.m.NestedType = append(b.m.NestedType, nb.m)
		}
		if t.Chance("rs.nestedenum", 1, 5) {
			name := "Kind"
			b.m.EnumType = append(b.m.EnumType, g.genEnum(name))
			g.enums = append(g.enums, renum{b.full + "." + name, file})
		}
	}
	nf := t.Draw("rs.fields", 7) // now and then a message without fields
	var synth []*descriptorpb.FieldDescriptorProto
	defer func() {
		for _, f := range synth {
			f.OneofIndex = proto.Int32(b.oneof("_" + f.GetName()))
		}
	}()
	num := int32(1)
	usedNames := map[string]bool{}
	nextNum := func() int32 {
		n := num
		switch t.Draw("rs.numgap", 8) {
		case 7:
			num += 2000
		case 6:
			num += 16
		default:
			num++
		}
		if n >= 19000 && n <= 19999 {
			n += 1000
			num = n + 1
		}
		return n
	}
	name := func(i int) string {
		for tries := 0; ; tries++ {
			n := g.fieldName(i + tries*100)
			// proto3 rejects fields whose JSON names collide (type / type_)
			norm := strings.ToLower(strings.ReplaceAll(n, "_", ""))
			if !usedNames[norm] {
				usedNames[norm] = true
				return n
			}
		}
	}
	optional := func(f *descriptorpb.FieldDescriptorProto) {
		if proto2 {
			f.Label = descriptorpb.FieldDescriptorProto_LABEL_OPTIONAL.Enum()
		}
	}
	for i := 0; i < nf; i++ {
		switch t.Draw("rs.fkind", 8) {
		case 0, 1: // scalar
			s := scalarTypes[t.Draw("rs.scalar", len(scalarTypes))]
			f := b.scalar(name(i), nextNum(), s.t)
			optional(f)
			if !proto2 && g.opts.Tag == "" && t.Chance("rs.proto3optional", 1, 12) {
				// proto3 `optional`: a synthetic oneof holding just this field
				// (synthetic oneofs must follow all real ones; added at the end)
				f.Proto3Optional = proto.Bool(true)
				synth = append(synth, f)
			}
		case 2: // repeated scalar
			s := scalarTypes[t.Draw("rs.scalar", len(scalarTypes))]
			f := b.repeated(name(i), nextNum(), s.t)
			if !proto2 && t.Chance("rs.unpacked", 1, 5) && s.name != "string" && s.name != "bytes" {
				f.Options = &descriptorpb.FieldOptions{Packed: proto.Bool(false)}
			}
		case 3: // message
			pick := g.pickMsg
			if g.forceImports && g.opts.Tag == "" {
				pick = g.pickForeignMsg // files that see several packages use their types
			}
			if ref, ok := pick(file); ok {
				f := b.message(name(i), nextNum(), ref)
				if t.Chance("rs.repmsg", 1, 3) {
					f.Label = descriptorpb.FieldDescriptorProto_LABEL_REPEATED.Enum()
				}
			}
		case 4: // enum
			if ref, ok := g.pickEnum(file); ok && !proto2 {
				f := b.enum(name(i), nextNum(), ref)
				if t.Chance("rs.repenum", 1, 3) {
					f.Label = descriptorpb.FieldDescriptorProto_LABEL_REPEATED.Enum()
				}
			}
		case 5, 6: // map
			k := mapKeyScalars[t.Draw("rs.mapkey", len(mapKeyScalars))]
			n := name(i)
			switch t.Draw("rs.mapval", 3) {
			case 0:
				s := scalarTypes[t.Draw("rs.scalar", len(scalarTypes))]
				b.mapField(n, nextNum(), k, s.t, "")
			case 1:
				pick := g.pickMsg
				if g.forceImports && g.opts.Tag == "" {
					pick = g.pickForeignMsg
				}
				if ref, ok := pick(file); ok {
					b.mapField(n, nextNum(), k, descriptorpb.FieldDescriptorProto_TYPE_MESSAGE, ref)
				}
			case 2:
				if ref, ok := g.pickEnum(file); ok && !proto2 {
					b.mapField(n, nextNum(), k, descriptorpb.FieldDescriptorProto_TYPE_ENUM, ref)
				}
			}
		case 7: // oneof
			g.uniq++
			oi := b.oneof(fmt.Sprintf("choice%d", len(b.m.OneofDecl)))
			nm := 1 + t.Draw("rs.oneofn", 3)
			for j := 0; j < nm; j++ {
				if t.Chance("rs.oneofmsg", 1, 3) {
					if ref, ok := g.pickMsg(file); ok {
						b.message(name(i*10+j+50), nextNum(), ref).OneofIndex = proto.Int32(oi)
						continue
					}
				}
				s := oneofSafeScalars[t.Draw("rs.oneofscalar", len(oneofSafeScalars))]
				b.scalar(name(i*10+j+50), nextNum(), typeOf(s)).OneofIndex = proto.Int32(oi)
			}
		}
	}
}
