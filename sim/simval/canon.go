// Package simval holds the harness-side value model: abstract values
// (dynamicpb messages drawn from a tape), a canonical text form computed two
// independent ways (through protoreflect for reference messages, and by
// walking the plain Go struct with reflect and struct tags for generated
// messages, with no call into the code under test), construction histories,
// and struct snapshots.
package simval

import (
	"encoding/hex"
	"fmt"
	"math"
	"reflect"
	"sort"
	"strconv"
	"strings"

	"google.golang.org/protobuf/proto"
	"google.golang.org/protobuf/reflect/protoreflect"
)

// Canon renders a message through the protoreflect API (used on dynamicpb
// reference messages only).
func Canon(m protoreflect.Message) string {
	var b strings.Builder
	canonMsg(&b, m)
	return b.String()
}

func sortedFields(md protoreflect.MessageDescriptor) []protoreflect.FieldDescriptor {
	fds := md.Fields()
	out := make([]protoreflect.FieldDescriptor, fds.Len())
	for i := 0; i < fds.Len(); i++ {
		out[i] = fds.Get(i)
	}
	sort.Slice(out, func(i, j int) bool { return out[i].Number() < out[j].Number() })
	return out
}

func canonMsg(b *strings.Builder, m protoreflect.Message) {
	b.WriteByte('{')
	for _, fd := range sortedFields(m.Descriptor()) {
		if !m.Has(fd) {
			continue
		}
		b.WriteString(strconv.Itoa(int(fd.Number())))
		b.WriteByte(':')
		v := m.Get(fd)
		switch {
		case fd.IsMap():
			canonMap(b, fd, v.Map())
		case fd.IsList():
			l := v.List()
			b.WriteByte('[')
			for i := 0; i < l.Len(); i++ {
				if i > 0 {
					b.WriteByte(',')
				}
				canonSingle(b, fd, l.Get(i))
			}
			b.WriteByte(']')
		default:
			canonSingle(b, fd, v)
		}
		b.WriteByte(';')
	}
	if u := m.GetUnknown(); len(u) > 0 {
		b.WriteString("u:")
		b.WriteString(hex.EncodeToString(u))
		b.WriteByte(';')
	}
	b.WriteByte('}')
}

// SortedMapKeys lists the keys of a protoreflect map in canonical order.
func SortedMapKeys(fd protoreflect.FieldDescriptor, mp protoreflect.Map) []protoreflect.MapKey {
	var keys []protoreflect.MapKey
	mp.Range(func(k protoreflect.MapKey, _ protoreflect.Value) bool {
		keys = append(keys, k)
		return true
	})
	kk := fd.MapKey().Kind()
	sort.Slice(keys, func(i, j int) bool { return lessKey(kk, keys[i], keys[j]) })
	return keys
}

func lessKey(k protoreflect.Kind, a, b protoreflect.MapKey) bool {
	switch k {
	case protoreflect.BoolKind:
		return !a.Bool() && b.Bool()
	case protoreflect.StringKind:
		return a.String() < b.String()
	case protoreflect.Uint32Kind, protoreflect.Uint64Kind, protoreflect.Fixed32Kind, protoreflect.Fixed64Kind:
		return a.Uint() < b.Uint()
	default:
		return a.Int() < b.Int()
	}
}

func canonMap(b *strings.Builder, fd protoreflect.FieldDescriptor, mp protoreflect.Map) {
	b.WriteByte('<')
	for i, k := range SortedMapKeys(fd, mp) {
		if i > 0 {
			b.WriteByte(',')
		}
		canonSingle(b, fd.MapKey(), k.Value())
		b.WriteByte('=')
		canonSingle(b, fd.MapValue(), mp.Get(k))
	}
	b.WriteByte('>')
}

func canonSingle(b *strings.Builder, fd protoreflect.FieldDescriptor, v protoreflect.Value) {
	switch fd.Kind() {
	case protoreflect.BoolKind:
		if v.Bool() {
			b.WriteByte('t')
		} else {
			b.WriteByte('f')
		}
	case protoreflect.Int32Kind, protoreflect.Sint32Kind, protoreflect.Sfixed32Kind,
		protoreflect.Int64Kind, protoreflect.Sint64Kind, protoreflect.Sfixed64Kind:
		b.WriteByte('i')
		b.WriteString(strconv.FormatInt(v.Int(), 10))
	case protoreflect.Uint32Kind, protoreflect.Fixed32Kind, protoreflect.Uint64Kind, protoreflect.Fixed64Kind:
		b.WriteByte('u')
		b.WriteString(strconv.FormatUint(v.Uint(), 10))
	case protoreflect.FloatKind:
		fmt.Fprintf(b, "f32:%08x", math.Float32bits(float32(v.Float())))
	case protoreflect.DoubleKind:
		fmt.Fprintf(b, "f64:%016x", math.Float64bits(v.Float()))
	case protoreflect.StringKind:
		b.WriteString(strconv.Quote(v.String()))
	case protoreflect.BytesKind:
		b.WriteByte('x')
		b.WriteString(hex.EncodeToString(v.Bytes()))
	case protoreflect.EnumKind:
		b.WriteByte('e')
		b.WriteString(strconv.Itoa(int(v.Enum())))
	case protoreflect.MessageKind, protoreflect.GroupKind:
		canonMsg(b, v.Message())
	}
}

// ---------------------------------------------------------------------------
// The same canonical form computed from the plain Go struct.

// TagNumber extracts the field number from a `protobuf:"..."` struct tag.
func TagNumber(tag string) (int, bool) {
	parts := strings.Split(tag, ",")
	if len(parts) < 2 {
		return 0, false
	}
	n, err := strconv.Atoi(parts[1])
	return n, err == nil
}

// CanonStruct renders a generated message by walking its Go struct. It calls
// nothing in the generated code.
func CanonStruct(m proto.Message) (s string, err error) {
	defer func() {
		if r := recover(); r != nil {
			err = fmt.Errorf("struct walk: %v", r)
		}
	}()
	return CanonStructDesc(m, m.ProtoReflect().Descriptor())
}

// CanonStructDesc is CanonStruct with the descriptor supplied by the caller,
// so that not even ProtoReflect() of the generated type is called.
func CanonStructDesc(m proto.Message, md protoreflect.MessageDescriptor) (s string, err error) {
	defer func() {
		if r := recover(); r != nil {
			err = fmt.Errorf("struct walk: %v", r)
		}
	}()
	v := reflect.ValueOf(m)
	if v.Kind() != reflect.Pointer || v.IsNil() {
		return "", fmt.Errorf("not a non-nil pointer")
	}
	var b strings.Builder
	if err := canonStructMsg(&b, v, md); err != nil {
		return "", err
	}
	return b.String(), nil
}

type structEntry struct {
	fd    protoreflect.FieldDescriptor
	v     reflect.Value
	oneof bool
}

// structEntries lists (descriptor, value) for every protobuf-tagged field of
// the struct behind pv, resolving oneof wrappers.
func structEntries(pv reflect.Value, md protoreflect.MessageDescriptor) ([]structEntry, reflect.Value, error) {
	sv := pv.Elem()
	st := sv.Type()
	var es []structEntry
	var unknown reflect.Value
	for i := 0; i < st.NumField(); i++ {
		sf := st.Field(i)
		if tag := sf.Tag.Get("protobuf"); tag != "" {
			n, ok := TagNumber(tag)
			if !ok {
				return nil, unknown, fmt.Errorf("bad tag %q", tag)
			}
			fd := md.Fields().ByNumber(protoreflect.FieldNumber(n))
			if fd == nil {
				return nil, unknown, fmt.Errorf("%s: no field %d", md.FullName(), n)
			}
			es = append(es, structEntry{fd, sv.Field(i), false})
		} else if sf.Tag.Get("protobuf_oneof") != "" {
			iv := sv.Field(i)
			if iv.IsNil() {
				continue
			}
			w := iv.Elem()
			if w.Kind() != reflect.Pointer || w.IsNil() {
				return nil, unknown, fmt.Errorf("%s: oneof wrapper nil/invalid", md.FullName())
			}
			ws := w.Elem()
			wt := ws.Type()
			if wt.NumField() != 1 {
				return nil, unknown, fmt.Errorf("oneof wrapper %s has %d fields", wt, wt.NumField())
			}
			n, ok := TagNumber(wt.Field(0).Tag.Get("protobuf"))
			if !ok {
				return nil, unknown, fmt.Errorf("oneof wrapper %s: bad tag", wt)
			}
			fd := md.Fields().ByNumber(protoreflect.FieldNumber(n))
			if fd == nil {
				return nil, unknown, fmt.Errorf("%s: no field %d", md.FullName(), n)
			}
			es = append(es, structEntry{fd, ws.Field(0), true})
		} else if sf.Name == "unknownFields" {
			unknown = sv.Field(i)
		}
	}
	sort.Slice(es, func(i, j int) bool { return es[i].fd.Number() < es[j].fd.Number() })
	return es, unknown, nil
}

func canonStructMsg(b *strings.Builder, pv reflect.Value, md protoreflect.MessageDescriptor) error {
	es, unknown, err := structEntries(pv, md)
	if err != nil {
		return err
	}
	b.WriteByte('{')
	for _, e := range es {
		fd, v := e.fd, e.v
		switch {
		case fd.IsMap():
			if v.Len() == 0 {
				continue
			}
			b.WriteString(strconv.Itoa(int(fd.Number())))
			b.WriteString(":<")
			keys := v.MapKeys()
			kk := fd.MapKey().Kind()
			sort.Slice(keys, func(i, j int) bool { return lessReflectKey(kk, keys[i], keys[j]) })
			for i, k := range keys {
				if i > 0 {
					b.WriteByte(',')
				}
				if err := canonStructSingle(b, fd.MapKey(), k); err != nil {
					return err
				}
				b.WriteByte('=')
				if err := canonStructSingle(b, fd.MapValue(), v.MapIndex(k)); err != nil {
					return err
				}
			}
			b.WriteString(">;")
		case fd.IsList():
			if v.Len() == 0 {
				continue
			}
			b.WriteString(strconv.Itoa(int(fd.Number())))
			b.WriteString(":[")
			for i := 0; i < v.Len(); i++ {
				if i > 0 {
					b.WriteByte(',')
				}
				if err := canonStructSingle(b, fd, v.Index(i)); err != nil {
					return err
				}
			}
			b.WriteString("];")
		default:
			if !e.oneof && !populated(fd, v) {
				continue
			}
			b.WriteString(strconv.Itoa(int(fd.Number())))
			b.WriteByte(':')
			if err := canonStructSingle(b, fd, v); err != nil {
				return err
			}
			b.WriteByte(';')
		}
	}
	if unknown.IsValid() && unknown.Len() > 0 {
		b.WriteString("u:")
		b.WriteString(hex.EncodeToString(unknown.Bytes()))
		b.WriteByte(';')
	}
	b.WriteByte('}')
	return nil
}

func populated(fd protoreflect.FieldDescriptor, v reflect.Value) bool {
	switch fd.Kind() {
	case protoreflect.BoolKind:
		return v.Bool()
	case protoreflect.FloatKind:
		return math.Float32bits(float32(v.Float())) != 0
	case protoreflect.DoubleKind:
		return math.Float64bits(v.Float()) != 0
	case protoreflect.StringKind, protoreflect.BytesKind:
		return v.Len() > 0
	case protoreflect.MessageKind, protoreflect.GroupKind:
		return !v.IsNil()
	case protoreflect.Uint32Kind, protoreflect.Fixed32Kind, protoreflect.Uint64Kind, protoreflect.Fixed64Kind:
		return v.Uint() != 0
	default:
		return v.Int() != 0
	}
}

func lessReflectKey(k protoreflect.Kind, a, b reflect.Value) bool {
	switch k {
	case protoreflect.BoolKind:
		return !a.Bool() && b.Bool()
	case protoreflect.StringKind:
		return a.String() < b.String()
	case protoreflect.Uint32Kind, protoreflect.Uint64Kind, protoreflect.Fixed32Kind, protoreflect.Fixed64Kind:
		return a.Uint() < b.Uint()
	default:
		return a.Int() < b.Int()
	}
}

func canonStructSingle(b *strings.Builder, fd protoreflect.FieldDescriptor, v reflect.Value) error {
	switch fd.Kind() {
	case protoreflect.BoolKind:
		if v.Bool() {
			b.WriteByte('t')
		} else {
			b.WriteByte('f')
		}
	case protoreflect.Int32Kind, protoreflect.Sint32Kind, protoreflect.Sfixed32Kind,
		protoreflect.Int64Kind, protoreflect.Sint64Kind, protoreflect.Sfixed64Kind:
		b.WriteByte('i')
		b.WriteString(strconv.FormatInt(v.Int(), 10))
	case protoreflect.Uint32Kind, protoreflect.Fixed32Kind, protoreflect.Uint64Kind, protoreflect.Fixed64Kind:
		b.WriteByte('u')
		b.WriteString(strconv.FormatUint(v.Uint(), 10))
	case protoreflect.FloatKind:
		fmt.Fprintf(b, "f32:%08x", math.Float32bits(float32(v.Float())))
	case protoreflect.DoubleKind:
		fmt.Fprintf(b, "f64:%016x", math.Float64bits(v.Float()))
	case protoreflect.StringKind:
		b.WriteString(strconv.Quote(v.String()))
	case protoreflect.BytesKind:
		b.WriteByte('x')
		b.WriteString(hex.EncodeToString(v.Bytes()))
	case protoreflect.EnumKind:
		b.WriteByte('e')
		b.WriteString(strconv.FormatInt(v.Int(), 10))
	case protoreflect.MessageKind, protoreflect.GroupKind:
		if v.Kind() != reflect.Pointer {
			return fmt.Errorf("message field %s is not a pointer", fd.FullName())
		}
		if v.IsNil() {
			b.WriteString("nil")
			return nil
		}
		return canonStructMsg(b, v, fd.Message())
	}
	return nil
}
