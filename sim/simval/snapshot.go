package simval

import (
	"fmt"
	"reflect"
	"sort"
	"unsafe"

	"github.com/cosmos/cosmos-proto/internal/verifsim/simhook"
	"google.golang.org/protobuf/proto"
)

// Snapshot is a structural fingerprint of the Go struct behind a message:
// identity (address), length, capacity and content of every slice, map,
// string, nested message pointer, oneof wrapper and the unknown-field bytes,
// so that nil-versus-empty, re-allocation and in-place edits are all visible.
// protoimpl's state and sizeCache words are excluded: protobuf-go writes them
// atomically by design (a non-atomic write to them is the race oracle's job).
type Snapshot struct {
	Entries []SnapEntry
	Hash    uint64
}

type SnapEntry struct {
	Path string
	Desc string
}

func TakeSnapshot(m proto.Message) *Snapshot {
	s := &Snapshot{}
	v := reflect.ValueOf(m)
	s.walk("", v, 0)
	for _, e := range s.Entries {
		s.Hash = simhook.Mix(s.Hash, simhook.HashString(e.Path), simhook.HashString(e.Desc))
	}
	return s
}

// Diff returns the paths at which two snapshots differ (first few).
func (s *Snapshot) Diff(o *Snapshot) []string {
	if s.Hash == o.Hash && len(s.Entries) == len(o.Entries) {
		return nil
	}
	var out []string
	n := len(s.Entries)
	if len(o.Entries) > n {
		n = len(o.Entries)
	}
	for i := 0; i < n && len(out) < 6; i++ {
		var a, b SnapEntry
		if i < len(s.Entries) {
			a = s.Entries[i]
		}
		if i < len(o.Entries) {
			b = o.Entries[i]
		}
		if a != b {
			out = append(out, fmt.Sprintf("%s: %s -> %s: %s", a.Path, a.Desc, b.Path, b.Desc))
		}
	}
	return out
}

func (s *Snapshot) add(path, format string, a ...interface{}) {
	s.Entries = append(s.Entries, SnapEntry{path, fmt.Sprintf(format, a...)})
}

func (s *Snapshot) walk(path string, v reflect.Value, depth int) {
	if depth > 40 {
		s.add(path, "too deep")
		return
	}
	switch v.Kind() {
	case reflect.Pointer:
		if v.IsNil() {
			s.add(path, "nil-ptr")
			return
		}
		s.add(path, "ptr@%x", v.Pointer())
		if v.Elem().Kind() == reflect.Struct {
			s.walkStruct(path, v.Elem(), depth+1)
		} else {
			s.walk(path+"*", v.Elem(), depth+1)
		}
	case reflect.Struct:
		s.walkStruct(path, v, depth+1)
	case reflect.Interface:
		if v.IsNil() {
			s.add(path, "nil-iface")
			return
		}
		s.add(path, "iface(%s)", v.Elem().Type())
		s.walk(path, v.Elem(), depth+1)
	case reflect.Slice:
		if v.IsNil() {
			s.add(path, "nil-slice")
			return
		}
		s.add(path, "slice@%x len=%d cap=%d", v.Pointer(), v.Len(), v.Cap())
		if v.Type().Elem().Kind() == reflect.Uint8 {
			s.add(path, "bytes=%x", v.Bytes())
			return
		}
		for i := 0; i < v.Len(); i++ {
			s.walk(fmt.Sprintf("%s[%d]", path, i), v.Index(i), depth+1)
		}
	case reflect.Map:
		if v.IsNil() {
			s.add(path, "nil-map")
			return
		}
		s.add(path, "map@%x len=%d", v.Pointer(), v.Len())
		keys := v.MapKeys()
		sort.Slice(keys, func(i, j int) bool { return lessAny(keys[i], keys[j]) })
		for _, k := range keys {
			kp := fmt.Sprintf("%s{%v}", path, keyString(k))
			if k.Kind() == reflect.String {
				s.add(kp, "keystr@%x", strData(k.String()))
			}
			s.walk(kp, v.MapIndex(k), depth+1)
		}
	case reflect.String:
		str := v.String()
		s.add(path, "str@%x len=%d %q", strData(str), len(str), str)
	case reflect.Bool:
		s.add(path, "%v", v.Bool())
	case reflect.Int, reflect.Int8, reflect.Int16, reflect.Int32, reflect.Int64:
		s.add(path, "%d", v.Int())
	case reflect.Uint, reflect.Uint8, reflect.Uint16, reflect.Uint32, reflect.Uint64, reflect.Uintptr:
		s.add(path, "%d", v.Uint())
	case reflect.Float32, reflect.Float64:
		s.add(path, "%x", mathBits(v))
	default:
		s.add(path, "kind %s", v.Kind())
	}
}

func strData(s string) uintptr {
	return (*reflect.StringHeader)(unsafe.Pointer(&s)).Data
}

func mathBits(v reflect.Value) uint64 {
	f := v.Float()
	return *(*uint64)(unsafe.Pointer(&f))
}

func keyString(k reflect.Value) string {
	switch k.Kind() {
	case reflect.String:
		return fmt.Sprintf("%q", k.String())
	case reflect.Bool:
		return fmt.Sprint(k.Bool())
	case reflect.Int, reflect.Int32, reflect.Int64:
		return fmt.Sprint(k.Int())
	default:
		return fmt.Sprint(k.Uint())
	}
}

func lessAny(a, b reflect.Value) bool {
	switch a.Kind() {
	case reflect.String:
		return a.String() < b.String()
	case reflect.Bool:
		return !a.Bool() && b.Bool()
	case reflect.Int, reflect.Int8, reflect.Int16, reflect.Int32, reflect.Int64:
		return a.Int() < b.Int()
	default:
		return a.Uint() < b.Uint()
	}
}

func (s *Snapshot) walkStruct(path string, sv reflect.Value, depth int) {
	st := sv.Type()
	for i := 0; i < st.NumField(); i++ {
		sf := st.Field(i)
		switch sf.Name {
		case "state", "sizeCache":
			continue
		}
		if sf.Tag.Get("protobuf") == "" && sf.Tag.Get("protobuf_oneof") == "" && sf.Name != "unknownFields" {
			// not a protobuf field (e.g. NoUnkeyedLiterals/DoNotCompare markers)
			if sf.Type.Kind() == reflect.Struct || sf.Type.Kind() == reflect.Array || sf.Type.Kind() == reflect.Func {
				continue
			}
		}
		s.walk(path+"."+sf.Name, sv.Field(i), depth)
	}
}

// OddShape puts the same odd-but-constructible state into every copy (plain
// reflect, no call into the generated code). Reads may panic on such states
// (another property's business) but must not write. kind: 0 a message-valued
// map entry holding a nil pointer, 1 a oneof field holding a typed-nil wrapper
// pointer, 2 a oneof wrapper whose message member is nil, 3 a nil element in a
// repeated message field. sel picks the field.
// It reports whether the shape could be applied.
func OddShape(kind, sel int, copies ...proto.Message) bool {
	first := reflect.ValueOf(copies[0]).Elem()
	st := first.Type()
	var cands []int
	for i := 0; i < st.NumField(); i++ {
		f := first.Field(i)
		if st.Field(i).PkgPath != "" {
			continue
		}
		switch kind {
		case 0:
			if f.Kind() == reflect.Map && f.Type().Elem().Kind() == reflect.Pointer && f.Len() > 0 {
				cands = append(cands, i)
			}
		case 1:
			if f.Kind() == reflect.Interface && st.Field(i).Tag.Get("protobuf_oneof") != "" && !f.IsNil() {
				cands = append(cands, i)
			}
		case 2:
			if f.Kind() == reflect.Interface && st.Field(i).Tag.Get("protobuf_oneof") != "" && !f.IsNil() {
				w := f.Elem()
				if w.Kind() == reflect.Pointer && !w.IsNil() && w.Elem().NumField() == 1 && w.Elem().Field(0).Kind() == reflect.Pointer {
					cands = append(cands, i)
				}
			}
		case 3:
			if f.Kind() == reflect.Slice && f.Type().Elem().Kind() == reflect.Pointer && f.Type().Elem().Elem().Kind() == reflect.Struct && f.Len() > 0 {
				cands = append(cands, i)
			}
		}
	}
	if len(cands) == 0 {
		return false
	}
	fi := cands[sel%len(cands)]
	var key reflect.Value
	if kind == 0 {
		keys := first.Field(fi).MapKeys()
		sort.Slice(keys, func(i, j int) bool { return lessAny(keys[i], keys[j]) })
		key = keys[(sel/7)%len(keys)]
	}
	for _, c := range copies {
		f := reflect.ValueOf(c).Elem().Field(fi)
		switch kind {
		case 0:
			f.SetMapIndex(key, reflect.Zero(f.Type().Elem()))
		case 1:
			f.Set(reflect.Zero(f.Elem().Type())) // typed-nil wrapper pointer inside the interface
		case 2:
			inner := f.Elem().Elem().Field(0)
			inner.Set(reflect.Zero(inner.Type()))
		case 3:
			e := f.Index((sel / 7) % f.Len())
			e.Set(reflect.Zero(e.Type()))
		}
	}
	return true
}

// SharesMemory walks the Go struct of m and reports the first string, byte
// slice or other slice whose backing memory (up to its CAPACITY: an append by
// the owner writes there) overlaps the backing array of buf (up to its
// capacity). "" means no overlap. Zero-capacity slices and empty strings own
// no memory.
func SharesMemory(m proto.Message, buf []byte) string {
	if cap(buf) == 0 || m == nil {
		return ""
	}
	full := buf[:cap(buf)]
	lo := uintptr(unsafe.Pointer(&full[0]))
	w := &memWalk{lo: lo, hi: lo + uintptr(len(full))}
	v := reflect.ValueOf(m)
	if v.Kind() != reflect.Pointer || v.IsNil() {
		return ""
	}
	w.walk("", v, 0)
	return w.found
}

type memWalk struct {
	lo, hi uintptr
	found  string
}

func (w *memWalk) hit(path, what string, p uintptr, n int) {
	if w.found == "" && n > 0 && p < w.hi && p+uintptr(n) > w.lo {
		w.found = fmt.Sprintf("%s: %s at offset %d of the buffer (%d bytes)", path, what, int64(p)-int64(w.lo), n)
	}
}

func (w *memWalk) walk(path string, v reflect.Value, depth int) {
	if depth > 40 || w.found != "" {
		return
	}
	switch v.Kind() {
	case reflect.Pointer, reflect.Interface:
		if !v.IsNil() {
			w.walk(path, v.Elem(), depth+1)
		}
	case reflect.Struct:
		st := v.Type()
		for i := 0; i < st.NumField(); i++ {
			sf := st.Field(i)
			if sf.Name == "state" || sf.Name == "sizeCache" {
				continue
			}
			if sf.Tag.Get("protobuf") == "" && sf.Tag.Get("protobuf_oneof") == "" && sf.Name != "unknownFields" && st.NumField() > 1 {
				if sf.Type.Kind() == reflect.Struct || sf.Type.Kind() == reflect.Array || sf.Type.Kind() == reflect.Func {
					continue
				}
			}
			w.walk(path+"."+sf.Name, v.Field(i), depth+1)
		}
	case reflect.Slice:
		if v.IsNil() {
			return
		}
		if v.Cap() > 0 {
			w.hit(path, fmt.Sprintf("slice (len %d, cap %d)", v.Len(), v.Cap()), v.Pointer(), v.Cap()*int(v.Type().Elem().Size()))
		}
		if v.Type().Elem().Kind() == reflect.Uint8 {
			return
		}
		for i := 0; i < v.Len(); i++ {
			w.walk(fmt.Sprintf("%s[%d]", path, i), v.Index(i), depth+1)
		}
	case reflect.Map:
		it := v.MapRange()
		for it.Next() {
			k := it.Key()
			kp := fmt.Sprintf("%s{%s}", path, keyString(k))
			if k.Kind() == reflect.String {
				s := k.String()
				w.hit(kp, "map key string", strData(s), len(s))
			}
			w.walk(kp, it.Value(), depth+1)
		}
	case reflect.String:
		s := v.String()
		w.hit(path, "string", strData(s), len(s))
	}
}

// StructHash digests exactly what TakeSnapshot records (pointer identities,
// nil-versus-empty, lengths, capacities, contents; the same fields skipped),
// without building the textual entries: the per-step check compares this and
// takes the full snapshot only when it differs. Map entries are combined
// commutatively, so no sorting is needed.
func StructHash(m proto.Message) uint64 {
	return hashWalk(reflect.ValueOf(m), 0)
}

func hmix(h, v uint64) uint64 {
	h ^= v
	h *= 0x9E3779B97F4A7C15
	h ^= h >> 29
	return h
}

func hbytes(h uint64, b []byte) uint64 {
	for len(b) >= 8 {
		h = hmix(h, uint64(b[0])|uint64(b[1])<<8|uint64(b[2])<<16|uint64(b[3])<<24|uint64(b[4])<<32|uint64(b[5])<<40|uint64(b[6])<<48|uint64(b[7])<<56)
		b = b[8:]
	}
	for _, c := range b {
		h = hmix(h, uint64(c)+0x100)
	}
	return h
}

func hashWalk(v reflect.Value, depth int) uint64 {
	if depth > 40 {
		return 0x7dee9
	}
	h := uint64(v.Kind()) + 0x51
	switch v.Kind() {
	case reflect.Pointer:
		if v.IsNil() {
			return hmix(h, 1)
		}
		h = hmix(h, uint64(v.Pointer()))
		return hmix(h, hashWalk(v.Elem(), depth+1))
	case reflect.Struct:
		st := v.Type()
		for i := 0; i < st.NumField(); i++ {
			sf := st.Field(i)
			if sf.Name == "state" || sf.Name == "sizeCache" {
				continue
			}
			if sf.Tag.Get("protobuf") == "" && sf.Tag.Get("protobuf_oneof") == "" && sf.Name != "unknownFields" {
				if k := sf.Type.Kind(); k == reflect.Struct || k == reflect.Array || k == reflect.Func {
					continue
				}
			}
			h = hmix(h, uint64(i)+0x1000)
			h = hmix(h, hashWalk(v.Field(i), depth+1))
		}
		return h
	case reflect.Interface:
		if v.IsNil() {
			return hmix(h, 2)
		}
		return hmix(h, hashWalk(v.Elem(), depth+1))
	case reflect.Slice:
		if v.IsNil() {
			return hmix(h, 3)
		}
		h = hmix(hmix(hmix(h, uint64(v.Pointer())), uint64(v.Len())), uint64(v.Cap()))
		if v.Type().Elem().Kind() == reflect.Uint8 {
			return hbytes(h, v.Bytes())
		}
		for i := 0; i < v.Len(); i++ {
			h = hmix(h, hashWalk(v.Index(i), depth+1))
		}
		return h
	case reflect.Map:
		if v.IsNil() {
			return hmix(h, 4)
		}
		h = hmix(hmix(h, uint64(v.Pointer())), uint64(v.Len()))
		var sum uint64
		it := v.MapRange()
		for it.Next() {
			e := hashWalk(it.Key(), depth+1)
			e = hmix(e, hashWalk(it.Value(), depth+1))
			sum += e
		}
		return hmix(h, sum)
	case reflect.String:
		s := v.String()
		h = hmix(hmix(h, uint64(strData(s))), uint64(len(s)))
		for i := 0; i < len(s); i++ {
			h = hmix(h, uint64(s[i]))
		}
		return h
	case reflect.Bool:
		if v.Bool() {
			return hmix(h, 6)
		}
		return hmix(h, 5)
	case reflect.Int, reflect.Int8, reflect.Int16, reflect.Int32, reflect.Int64:
		return hmix(h, uint64(v.Int()))
	case reflect.Uint, reflect.Uint8, reflect.Uint16, reflect.Uint32, reflect.Uint64, reflect.Uintptr:
		return hmix(h, v.Uint())
	case reflect.Float32, reflect.Float64:
		return hmix(h, mathBits(v))
	}
	return h
}
