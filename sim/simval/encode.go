package simval

import (
	"math"

	"github.com/cosmos/cosmos-proto/internal/verifsim/simhook"
	"google.golang.org/protobuf/encoding/protowire"
	"google.golang.org/protobuf/reflect/protoreflect"
)

// EncodeOpts steers the harness-side reference encoder. It always produces a
// well-typed stream in which each singular field occurs at most once and list
// elements keep their order; what varies is the order of records, the order
// of map entries and (optionally) extra unknown records.
type EncodeOpts struct {
	T        *simhook.Tape // nil: canonical order, nothing drawn
	Shuffle  bool          // interleave records of different fields
	Unknowns bool          // splice additional unknown records at every level
	// DupMapKeys: some map entries are preceded by an entry with the same key
	// and a default value (the later one wins, so the decoded value is the same).
	DupMapKeys bool
	// KeyOnlyEntries: some entries of message-valued maps are preceded by an
	// entry that carries the key but no value field.
	KeyOnlyEntries bool
	// Redundant: non-canonical but well-typed records that do not change the
	// decoded value: explicit records carrying the default value for
	// unpopulated singular scalar fields (e.g. a zero-length bytes field), and
	// an earlier record with the default value in front of a populated singular
	// scalar (the last one wins).
	Redundant bool
	// NonCanonical: scalars may use encodings no encoder emits but every
	// decoder must accept: `true` as any non-zero varint byte, varints padded
	// to a non-minimal length.
	NonCanonical bool
}

// variantOf is another value of the same kind and, for strings and bytes, of
// the same length.
func variantOf(fd protoreflect.FieldDescriptor, v protoreflect.Value) protoreflect.Value {
	switch fd.Kind() {
	case protoreflect.BytesKind:
		b := append([]byte{}, v.Bytes()...)
		for i := range b {
			b[i] ^= 0x55
		}
		return protoreflect.ValueOfBytes(b)
	case protoreflect.StringKind:
		b := []byte(v.String())
		for i := range b {
			if b[i] < 0x80 {
				b[i] = 'x'
			}
		}
		return protoreflect.ValueOfString(string(b))
	}
	return fd.Default()
}

// SplitRecords cuts a well-formed wire stream into its records.
func SplitRecords(u []byte) [][]byte {
	var out [][]byte
	for len(u) > 0 {
		_, _, n := protowire.ConsumeField(u)
		if n <= 0 {
			out = append(out, u)
			break
		}
		out = append(out, u[:n])
		u = u[n:]
	}
	return out
}

func wireType(k protoreflect.Kind) protowire.Type {
	switch k {
	case protoreflect.Fixed32Kind, protoreflect.Sfixed32Kind, protoreflect.FloatKind:
		return protowire.Fixed32Type
	case protoreflect.Fixed64Kind, protoreflect.Sfixed64Kind, protoreflect.DoubleKind:
		return protowire.Fixed64Type
	case protoreflect.StringKind, protoreflect.BytesKind, protoreflect.MessageKind:
		return protowire.BytesType
	}
	return protowire.VarintType
}

// appendVarint writes a varint, sometimes padded to a non-minimal length.
func (o *EncodeOpts) appendVarint(b []byte, x uint64) []byte {
	start := len(b)
	b = protowire.AppendVarint(b, x)
	if o.T != nil && o.NonCanonical && len(b)-start < 9 && o.T.Chance("varint-padded", 1, 6) {
		b[len(b)-1] |= 0x80
		for i, n := 0, o.T.Draw("varint-pad", 2); i < n; i++ {
			b = append(b, 0x80)
		}
		b = append(b, 0x00)
	}
	return b
}

func (o *EncodeOpts) appendScalar(b []byte, fd protoreflect.FieldDescriptor, v protoreflect.Value) []byte {
	switch fd.Kind() {
	case protoreflect.BoolKind:
		if v.Bool() {
			if o.T != nil && o.NonCanonical && o.T.Chance("bool-noncanonical", 1, 2) {
				return append(b, []byte{2, 0x7f, 3, 0x40}[o.T.Draw("bool-byte", 4)])
			}
			return protowire.AppendVarint(b, 1)
		}
		return protowire.AppendVarint(b, 0)
	case protoreflect.EnumKind:
		return o.appendVarint(b, uint64(int64(v.Enum())))
	case protoreflect.Int32Kind, protoreflect.Int64Kind:
		return o.appendVarint(b, uint64(v.Int()))
	case protoreflect.Sint32Kind, protoreflect.Sint64Kind:
		return o.appendVarint(b, protowire.EncodeZigZag(v.Int()))
	case protoreflect.Uint32Kind, protoreflect.Uint64Kind:
		return o.appendVarint(b, v.Uint())
	case protoreflect.Sfixed32Kind:
		return protowire.AppendFixed32(b, uint32(v.Int()))
	case protoreflect.Fixed32Kind:
		return protowire.AppendFixed32(b, uint32(v.Uint()))
	case protoreflect.FloatKind:
		return protowire.AppendFixed32(b, math.Float32bits(float32(v.Float())))
	case protoreflect.Sfixed64Kind:
		return protowire.AppendFixed64(b, uint64(v.Int()))
	case protoreflect.Fixed64Kind:
		return protowire.AppendFixed64(b, v.Uint())
	case protoreflect.DoubleKind:
		return protowire.AppendFixed64(b, math.Float64bits(v.Float()))
	case protoreflect.StringKind:
		return protowire.AppendString(b, v.String())
	case protoreflect.BytesKind:
		return protowire.AppendBytes(b, v.Bytes())
	case protoreflect.MessageKind:
		return protowire.AppendBytes(b, o.Encode(v.Message()))
	}
	panic("appendScalar: unsupported kind")
}

// Encode renders the abstract value as a wire stream.
func (o *EncodeOpts) Encode(m protoreflect.Message) []byte {
	// groups[i] is the ordered record list of one field
	var groups [][][]byte
	for _, fd := range populatedFields(m) {
		v := m.Get(fd)
		var recs [][]byte
		switch {
		case fd.IsMap():
			mp := v.Map()
			keys := SortedMapKeys(fd, mp)
			idx := make([]int, len(keys))
			for i := range idx {
				idx[i] = i
			}
			if o.T != nil && o.Shuffle {
				idx = o.T.Perm("entryorder", len(keys))
			}
			for _, i := range idx {
				k := keys[i]
				var e []byte
				e = protowire.AppendTag(e, 1, wireType(fd.MapKey().Kind()))
				e = o.appendScalar(e, fd.MapKey(), k.Value())
				e = protowire.AppendTag(e, 2, wireType(fd.MapValue().Kind()))
				e = o.appendScalar(e, fd.MapValue(), mp.Get(k))
				var r []byte
				if o.T != nil && o.DupMapKeys && o.T.Chance("dupkey", 1, 3) {
					// same key first with a default value (or, for message values, no value at all)
					var d []byte
					d = protowire.AppendTag(d, 1, wireType(fd.MapKey().Kind()))
					d = o.appendScalar(d, fd.MapKey(), k.Value())
					if !(o.KeyOnlyEntries && fd.MapValue().Kind() == protoreflect.MessageKind && o.T.Chance("keyonly", 1, 2)) {
						d = protowire.AppendTag(d, 2, wireType(fd.MapValue().Kind()))
						if fd.MapValue().Kind() == protoreflect.MessageKind {
							d = protowire.AppendBytes(d, nil)
						} else {
							d = o.appendScalar(d, fd.MapValue(), fd.MapValue().Default())
						}
					}
					r = protowire.AppendTag(r, fd.Number(), protowire.BytesType)
					r = protowire.AppendBytes(r, d)
				}
				r = protowire.AppendTag(r, fd.Number(), protowire.BytesType)
				r = protowire.AppendBytes(r, e)
				recs = append(recs, r)
			}
			if o.T != nil && o.KeyOnlyEntries && fd.MapValue().Kind() == protoreflect.MessageKind && o.T.Chance("keyonly-extra", 1, 3) {
				// an entry for a key of its own that carries no value field at all
				var kv protoreflect.Value
				switch fd.MapKey().Kind() {
				case protoreflect.StringKind:
					kv = protoreflect.ValueOfString("\x02key-only")
				case protoreflect.BoolKind:
					kv = protoreflect.ValueOfBool(true)
				case protoreflect.Int32Kind, protoreflect.Sint32Kind, protoreflect.Sfixed32Kind:
					kv = protoreflect.ValueOfInt32(-424242)
				case protoreflect.Int64Kind, protoreflect.Sint64Kind, protoreflect.Sfixed64Kind:
					kv = protoreflect.ValueOfInt64(-424242)
				case protoreflect.Uint32Kind, protoreflect.Fixed32Kind:
					kv = protoreflect.ValueOfUint32(424242)
				default:
					kv = protoreflect.ValueOfUint64(424242)
				}
				if !mp.Has(kv.MapKey()) {
					var d, r []byte
					d = protowire.AppendTag(d, 1, wireType(fd.MapKey().Kind()))
					d = o.appendScalar(d, fd.MapKey(), kv)
					r = protowire.AppendTag(r, fd.Number(), protowire.BytesType)
					r = protowire.AppendBytes(r, d)
					recs = append(recs, r)
				}
			}
			// map entries of one field may arrive in any order: each is its own
			// group (a duplicate-key pair stays together, in order)
			if o.T != nil && o.Shuffle {
				for _, r := range recs {
					groups = append(groups, [][]byte{r})
				}
				continue
			}
		case fd.IsList():
			l := v.List()
			if fd.IsPacked() {
				var body []byte
				for i := 0; i < l.Len(); i++ {
					body = o.appendScalar(body, fd, l.Get(i))
				}
				var r []byte
				r = protowire.AppendTag(r, fd.Number(), protowire.BytesType)
				r = protowire.AppendBytes(r, body)
				recs = append(recs, r)
			} else {
				for i := 0; i < l.Len(); i++ {
					var r []byte
					r = protowire.AppendTag(r, fd.Number(), wireType(fd.Kind()))
					r = o.appendScalar(r, fd, l.Get(i))
					recs = append(recs, r)
				}
			}
		default:
			var r []byte
			if o.T != nil && o.Redundant && fd.Kind() != protoreflect.MessageKind && o.T.Chance("redundant-first", 1, 4) {
				// an earlier record of the same field (also of the same oneof
				// member) with another value of the same length; the last wins
				var d []byte
				d = protowire.AppendTag(d, fd.Number(), wireType(fd.Kind()))
				first := variantOf(fd, v)
				if o.T.Chance("redundant-first-default", 1, 2) {
					first = fd.Default() // e.g. a zero-length bytes record before the real one
				}
				d = o.appendScalar(d, fd, first)
				recs = append(recs, d)
			}
			r = protowire.AppendTag(r, fd.Number(), wireType(fd.Kind()))
			r = o.appendScalar(r, fd, v)
			recs = append(recs, r)
		}
		groups = append(groups, recs)
	}
	if o.T != nil && o.Redundant {
		// explicit default-valued records for some unpopulated singular scalars
		n := 0
		for _, fd := range sortedFields(m.Descriptor()) {
			if n >= 4 {
				break
			}
			if m.Has(fd) || fd.IsList() || fd.IsMap() || fd.Kind() == protoreflect.MessageKind || fd.ContainingOneof() != nil {
				continue
			}
			if !o.T.Chance("explicit-default", 1, 8) {
				continue
			}
			var r []byte
			r = protowire.AppendTag(r, fd.Number(), wireType(fd.Kind()))
			r = o.appendScalar(r, fd, fd.Default())
			if o.T.Chance("explicit-default-twice", 1, 3) {
				// the same field again right away (e.g. two zero-length bytes records)
				r = protowire.AppendTag(r, fd.Number(), wireType(fd.Kind()))
				r = o.appendScalar(r, fd, fd.Default())
			}
			groups = append(groups, [][]byte{r})
			n++
		}
	}
	// unknown records keep their relative order
	var unk [][]byte
	if o.T != nil && o.Unknowns && o.T.Chance("splice-unknown", 1, 3) {
		// additional unknown records at this level (before the value's own ones)
		for _, r := range SplitRecords(genUnknown(o.T, m.Descriptor())) {
			unk = append(unk, r)
		}
	}
	u := []byte(m.GetUnknown())
	for len(u) > 0 {
		_, _, n := protowire.ConsumeField(u)
		if n <= 0 {
			unk = append(unk, u)
			break
		}
		unk = append(unk, u[:n])
		u = u[n:]
	}
	if len(unk) > 0 {
		groups = append(groups, unk)
	}
	var out []byte
	if o.T == nil || !o.Shuffle {
		for _, g := range groups {
			for _, r := range g {
				out = append(out, r...)
			}
		}
		return out
	}
	// random interleave preserving order within a group
	remaining := 0
	for _, g := range groups {
		remaining += len(g)
	}
	pos := make([]int, len(groups))
	for remaining > 0 {
		var live []int
		for i, g := range groups {
			if pos[i] < len(g) {
				live = append(live, i)
			}
		}
		gi := live[o.T.Draw("interleave", len(live))]
		out = append(out, groups[gi][pos[gi]]...)
		pos[gi]++
		remaining--
	}
	return out
}

// Malform damages a well-formed encoding, or adds a record that is legal on
// the wire but unusual: cut short, a tag turned into an invalid wire type, a
// length that runs past the end, an over-long varint, field number zero, a
// (well-nested) group of an unknown field, an end-group without a start.
func Malform(t *simhook.Tape, b []byte) []byte {
	out := append([]byte{}, b...)
	switch t.Draw("malform-kind", 8) {
	case 0: // cut short
		if len(out) > 1 {
			out = out[:1+t.Draw("malform-cut", len(out)-1)]
		}
	case 1: // the first tag gets wire type 6 or 7
		if len(out) > 0 && out[0] < 0x80 {
			out[0] = out[0]&^7 | byte(6+t.Draw("malform-wt", 2))
		}
	case 2: // a length-delimited record whose length runs past the end
		out = protowire.AppendTag(out, protowire.Number(1+t.Draw("malform-num", 40)), protowire.BytesType)
		out = protowire.AppendVarint(out, uint64(5+t.Draw("malform-len", 1<<20)))
		out = append(out, 1, 2, 3)
	case 3: // over-long varint
		out = protowire.AppendTag(out, protowire.Number(1+t.Draw("malform-num", 40)), protowire.VarintType)
		out = append(out, 0x80, 0x80, 0x80, 0x80, 0x80, 0x80, 0x80, 0x80, 0x80, 0x80, 0x01)
	case 4: // field number zero
		out = append(out, 0x00, 0x01)
	case 5: // a well-nested group under an unknown number (legal; the decoder has to skip it)
		num := protowire.Number(19000 - 1 - t.Draw("malform-gnum", 50))
		out = protowire.AppendTag(out, num, protowire.StartGroupType)
		out = protowire.AppendTag(out, 1, protowire.VarintType)
		out = protowire.AppendVarint(out, 7)
		out = protowire.AppendTag(out, 2, protowire.BytesType)
		out = protowire.AppendBytes(out, []byte("in-group"))
		out = protowire.AppendTag(out, num, protowire.EndGroupType)
	case 6: // end-group without a start
		out = protowire.AppendTag(out, protowire.Number(1+t.Draw("malform-num", 40)), protowire.EndGroupType)
	case 7: // a group that never ends
		out = protowire.AppendTag(out, protowire.Number(18000), protowire.StartGroupType)
		out = protowire.AppendTag(out, 1, protowire.VarintType)
		out = protowire.AppendVarint(out, 1)
	}
	return out
}
