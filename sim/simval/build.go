package simval

import (
	"fmt"
	"reflect"

	"github.com/cosmos/cosmos-proto/internal/verifsim/simhook"
	"google.golang.org/protobuf/proto"
	"google.golang.org/protobuf/reflect/protoreflect"
	"google.golang.org/protobuf/reflect/protoregistry"
	"google.golang.org/protobuf/runtime/protoimpl"
)

// History says how a concrete message is to be constructed from an abstract
// value. All of its choices come from the tape.
type History struct {
	T *simhook.Tape
	// PermuteInserts: map entries (and top-level fields) are inserted in a
	// tape-drawn order instead of ascending order.
	PermuteInserts bool
	// Extras: extra keys inserted and deleted again (0 = none). GrowTo: insert
	// this many extra keys first and delete them all (forces growth/rehash).
	Extras int
	GrowTo int
	// Overwrite: set some keys to a wrong value first.
	Overwrite bool
	// EmptyNotNil (struct builder): unpopulated lists/maps/bytes are set to
	// empty non-nil containers instead of nil.
	EmptyNotNil bool
	// EmptyCap (struct builder, with EmptyNotNil): capacity of the empty
	// non-nil slices given to unpopulated list fields.
	EmptyCap int
	// TruncateLists (reflect builder): lists are over-filled and truncated back,
	// and some unpopulated lists are filled and truncated to length 0, which
	// leaves empty non-nil slices with spare capacity.
	TruncateLists bool
	// EmptyUnknown: messages without unknown fields get a non-nil, zero-length
	// unknown-field slice (what SetUnknown(RawFields{}) leaves behind).
	EmptyUnknown bool
	// SizeHint (struct builder): make maps with a capacity hint.
	SizeHint int
	// Between, if set, is called between insertions with the root message.
	Between func()
	Notes   []string
}

func (h *History) note(format string, a ...interface{}) {
	if len(h.Notes) < 64 {
		h.Notes = append(h.Notes, fmt.Sprintf(format, a...))
	}
}

func (h *History) between() {
	if h.Between != nil && h.T.Chance("between", 1, 4) {
		h.Between()
	}
}

func cloneValue(fd protoreflect.FieldDescriptor, v protoreflect.Value) protoreflect.Value {
	if fd.Kind() == protoreflect.BytesKind {
		if len(v.Bytes()) == 0 {
			return protoreflect.ValueOfBytes(nil) // empty bytes handed over as a nil slice
		}
		return protoreflect.ValueOfBytes(append([]byte{}, v.Bytes()...))
	}
	return v
}

func dstField(dst protoreflect.Message, fd protoreflect.FieldDescriptor) protoreflect.FieldDescriptor {
	return dst.Descriptor().Fields().ByNumber(fd.Number())
}

func (h *History) order(n int, label string) []int {
	if h.PermuteInserts {
		return h.T.Perm(label, n)
	}
	p := make([]int, n)
	for i := range p {
		p[i] = i
	}
	return p
}

// BuildReflect constructs the value through the protoreflect API of the
// target type (Set / Mutable / list Append / map Set / Clear).
func (h *History) BuildReflect(av protoreflect.Message, mt protoreflect.MessageType) (m proto.Message, err error) {
	defer func() {
		if r := recover(); r != nil {
			err = fmt.Errorf("reflect build panicked: %v", r)
		}
	}()
	dst := mt.New()
	h.fillReflect(dst, av)
	return dst.Interface(), nil
}

// BuildReflectInto is BuildReflect on a root the caller allocated.
func (h *History) BuildReflectInto(dst protoreflect.Message, av protoreflect.Message) (m proto.Message, err error) {
	defer func() {
		if r := recover(); r != nil {
			err = fmt.Errorf("reflect build panicked: %v", r)
		}
	}()
	h.fillReflect(dst, av)
	return dst.Interface(), nil
}

func populatedFields(av protoreflect.Message) []protoreflect.FieldDescriptor {
	var out []protoreflect.FieldDescriptor
	for _, fd := range sortedFields(av.Descriptor()) {
		if av.Has(fd) {
			out = append(out, fd)
		}
	}
	return out
}

func (h *History) fillReflect(dst protoreflect.Message, av protoreflect.Message) {
	fds := populatedFields(av)
	for _, i := range h.order(len(fds), "fieldorder") {
		fd := fds[i]
		dfd := dstField(dst, fd)
		v := av.Get(fd)
		switch {
		case fd.IsMap():
			h.fillMapReflect(dst.Mutable(dfd).Map(), dfd, v.Map())
		case fd.IsList():
			l := dst.Mutable(dfd).List()
			sl := v.List()
			for j := 0; j < sl.Len(); j++ {
				if fd.Kind() == protoreflect.MessageKind {
					e := l.NewElement()
					h.fillReflect(e.Message(), sl.Get(j).Message())
					l.Append(e)
				} else {
					l.Append(cloneValue(fd, sl.Get(j)))
				}
			}
			if h.TruncateLists && h.T.Chance("overfill", 1, 2) {
				h.overfill(l, fd, sl.Len())
			}
		case fd.Kind() == protoreflect.MessageKind:
			h.fillReflect(dst.Mutable(dfd).Message(), v.Message())
		default:
			if od := dfd.ContainingOneof(); od != nil && !od.IsSynthetic() && h.Overwrite && od.Fields().Len() > 1 {
				// oneof history: another member is set first, then replaced
				other := od.Fields().Get(h.T.Draw("oneof-other", od.Fields().Len()))
				if other.Number() != dfd.Number() {
					if other.Message() != nil {
						dst.Mutable(other)
					} else {
						dst.Set(other, cloneValue(other, other.Default()))
					}
					h.note("oneof %s: %s set first, then %s", od.Name(), other.Name(), dfd.Name())
				}
			}
			dst.Set(dfd, cloneValue(fd, v))
		}
		h.between()
	}
	if h.TruncateLists {
		// unpopulated lists: fill and truncate to zero (empty, non-nil, spare capacity)
		for _, fd := range sortedFields(av.Descriptor()) {
			if fd.IsList() && !av.Has(fd) && h.T.Chance("trunc-empty", 1, 4) {
				h.overfill(dst.Mutable(dstField(dst, fd)).List(), fd, 0)
			}
		}
	}
	if u := av.GetUnknown(); len(u) > 0 {
		dst.SetUnknown(append(protoreflect.RawFields{}, u...))
	} else if h.EmptyUnknown {
		dst.SetUnknown(protoreflect.RawFields{})
	}
}

// BuildMorph first builds ANOTHER value (from) through the reflection API and
// then turns the message into the target value with the operations an owner
// would use (Clear, Truncate, per-key map edits, Set, Mutable): whatever such a
// life leaves behind in the struct - emptied containers that keep their
// storage, switched oneofs, re-used nested messages - is part of the history.
func (h *History) BuildMorph(from, av protoreflect.Message, mt protoreflect.MessageType) (m proto.Message, err error) {
	defer func() {
		if r := recover(); r != nil {
			err = fmt.Errorf("morph build panicked: %v", r)
		}
	}()
	dst := mt.New()
	h.fillReflect(dst, from)
	h.morph(dst, av)
	return dst.Interface(), nil
}

func (h *History) morph(dst protoreflect.Message, av protoreflect.Message) {
	for _, fd := range sortedFields(av.Descriptor()) {
		dfd := dstField(dst, fd)
		if !av.Has(fd) {
			if !dst.Has(dfd) {
				continue
			}
			switch {
			case fd.IsList() && h.T.Chance("morph-truncate", 1, 2):
				dst.Mutable(dfd).List().Truncate(0)
			case fd.IsMap() && h.T.Chance("morph-delete-keys", 1, 2):
				mp := dst.Mutable(dfd).Map()
				for _, k := range SortedMapKeys(dfd, mp) {
					mp.Clear(k)
				}
			default:
				dst.Clear(dfd)
			}
			continue
		}
		v := av.Get(fd)
		switch {
		case fd.IsMap():
			mp := dst.Mutable(dfd).Map()
			src := v.Map()
			for _, k := range SortedMapKeys(dfd, mp) {
				if !src.Has(k) {
					mp.Clear(k)
				}
			}
			for _, k := range SortedMapKeys(fd, src) {
				if fd.MapValue().Kind() == protoreflect.MessageKind {
					if mp.Has(k) && mp.Get(k).Message().IsValid() && h.T.Chance("morph-reuse-value", 1, 2) {
						h.morph(mp.Mutable(k).Message(), src.Get(k).Message())
						continue
					}
					nv := mp.NewValue()
					h.fillReflect(nv.Message(), src.Get(k).Message())
					mp.Set(k, nv)
				} else {
					mp.Set(k, cloneValue(fd.MapValue(), src.Get(k)))
				}
			}
		case fd.IsList():
			l := dst.Mutable(dfd).List()
			src := v.List()
			if l.Len() > src.Len() {
				l.Truncate(src.Len())
			}
			for i := 0; i < src.Len(); i++ {
				if fd.Kind() == protoreflect.MessageKind {
					if i < l.Len() && h.T.Chance("morph-reuse-elem", 1, 2) {
						h.morph(l.Get(i).Message(), src.Get(i).Message())
						continue
					}
					e := l.NewElement()
					h.fillReflect(e.Message(), src.Get(i).Message())
					if i < l.Len() {
						l.Set(i, e)
					} else {
						l.Append(e)
					}
				} else if i < l.Len() {
					l.Set(i, cloneValue(fd, src.Get(i)))
				} else {
					l.Append(cloneValue(fd, src.Get(i)))
				}
			}
		case fd.Kind() == protoreflect.MessageKind:
			if dst.Has(dfd) && h.T.Chance("morph-reuse-msg", 1, 2) {
				h.morph(dst.Mutable(dfd).Message(), v.Message())
			} else {
				dst.Clear(dfd)
				h.fillReflect(dst.Mutable(dfd).Message(), v.Message())
			}
		default:
			dst.Set(dfd, cloneValue(fd, v))
		}
	}
	if u := av.GetUnknown(); len(u) > 0 {
		dst.SetUnknown(append(protoreflect.RawFields{}, u...))
	} else if len(dst.GetUnknown()) > 0 || h.EmptyUnknown {
		if h.T.Chance("morph-unknown-empty", 1, 2) {
			dst.SetUnknown(protoreflect.RawFields{})
		} else {
			dst.SetUnknown(nil)
		}
	}
}

// overfill appends extra elements and truncates the list back to n.
func (h *History) overfill(l protoreflect.List, fd protoreflect.FieldDescriptor, n int) {
	extra := 1 + h.T.Draw("overfill-n", 3)
	for i := 0; i < extra; i++ {
		if fd.Kind() == protoreflect.MessageKind {
			l.Append(l.NewElement())
		} else {
			l.Append(zeroScalar(fd))
		}
	}
	l.Truncate(n)
	h.note("overfilled %s by %d and truncated to %d", fd.Name(), extra, n)
}

// zeroScalar is the zero value of a scalar field kind (Default() is not
// defined for repeated fields).
func zeroScalar(fd protoreflect.FieldDescriptor) protoreflect.Value {
	switch fd.Kind() {
	case protoreflect.BoolKind:
		return protoreflect.ValueOfBool(false)
	case protoreflect.EnumKind:
		return protoreflect.ValueOfEnum(0)
	case protoreflect.Int32Kind, protoreflect.Sint32Kind, protoreflect.Sfixed32Kind:
		return protoreflect.ValueOfInt32(0)
	case protoreflect.Int64Kind, protoreflect.Sint64Kind, protoreflect.Sfixed64Kind:
		return protoreflect.ValueOfInt64(0)
	case protoreflect.Uint32Kind, protoreflect.Fixed32Kind:
		return protoreflect.ValueOfUint32(0)
	case protoreflect.Uint64Kind, protoreflect.Fixed64Kind:
		return protoreflect.ValueOfUint64(0)
	case protoreflect.FloatKind:
		return protoreflect.ValueOfFloat32(0)
	case protoreflect.DoubleKind:
		return protoreflect.ValueOfFloat64(0)
	case protoreflect.StringKind:
		return protoreflect.ValueOfString("")
	default:
		return protoreflect.ValueOfBytes(nil)
	}
}

// extraKeys draws up to n keys that are not in the final key set.
func extraKeys(t *simhook.Tape, fd protoreflect.FieldDescriptor, final protoreflect.Map, n int) []protoreflect.MapKey {
	var out []protoreflect.MapKey
	seen := map[interface{}]bool{}
	kfd := fd.MapKey()
	for i := 0; i < n; i++ {
		var k protoreflect.MapKey
		ok := false
		for tries := 0; tries < 3; tries++ {
			switch kfd.Kind() {
			case protoreflect.BoolKind:
				k = protoreflect.ValueOfBool(t.Draw("xk", 2) == 1).MapKey()
			case protoreflect.StringKind:
				k = protoreflect.ValueOfString(fmt.Sprintf("x%d-%d", i, t.Draw("xk", 1000))).MapKey()
			case protoreflect.Int32Kind, protoreflect.Sint32Kind, protoreflect.Sfixed32Kind:
				k = protoreflect.ValueOfInt32(int32(1000 + i*7 + t.Draw("xk", 5))).MapKey()
			case protoreflect.Int64Kind, protoreflect.Sint64Kind, protoreflect.Sfixed64Kind:
				k = protoreflect.ValueOfInt64(int64(1000 + i*7 + t.Draw("xk", 5))).MapKey()
			case protoreflect.Uint32Kind, protoreflect.Fixed32Kind:
				k = protoreflect.ValueOfUint32(uint32(1000 + i*7 + t.Draw("xk", 5))).MapKey()
			default:
				k = protoreflect.ValueOfUint64(uint64(1000 + i*7 + t.Draw("xk", 5))).MapKey()
			}
			if !final.Has(k) && !seen[k.Interface()] {
				ok = true
				break
			}
		}
		if ok {
			seen[k.Interface()] = true
			out = append(out, k)
		}
	}
	return out
}

func (h *History) fillMapReflect(dst protoreflect.Map, fd protoreflect.FieldDescriptor, src protoreflect.Map) {
	keys := SortedMapKeys(fd, src)
	vfd := fd.MapValue()
	mkVal := func(k protoreflect.MapKey) protoreflect.Value {
		if vfd.Kind() == protoreflect.MessageKind {
			nv := dst.NewValue()
			h.fillReflect(nv.Message(), src.Get(k).Message())
			return nv
		}
		return cloneValue(vfd, src.Get(k))
	}
	zeroVal := func() protoreflect.Value {
		if vfd.Kind() == protoreflect.MessageKind {
			return dst.NewValue()
		}
		return cloneValue(vfd, vfd.Default())
	}
	var grown []protoreflect.MapKey
	if h.GrowTo > 0 {
		grown = extraKeys(h.T, fd, src, h.GrowTo)
		for _, k := range grown {
			dst.Set(k, zeroVal())
		}
		h.note("grow %s to %d extra keys", fd.Name(), len(grown))
	}
	var extras []protoreflect.MapKey
	if h.Extras > 0 {
		extras = extraKeys(h.T, fd, src, h.Extras)
	}
	ei := 0
	for _, i := range h.order(len(keys), "keyorder") {
		k := keys[i]
		if ei < len(extras) && h.T.Chance("extra-before", 1, 2) {
			dst.Set(extras[ei], zeroVal())
			ei++
		}
		if h.Overwrite && h.T.Chance("overwrite", 1, 3) {
			dst.Set(k, zeroVal())
		}
		dst.Set(k, mkVal(k))
		h.between()
	}
	for ; ei < len(extras); ei++ {
		dst.Set(extras[ei], zeroVal())
	}
	// delete extras and grown keys in a drawn order
	del := append(append([]protoreflect.MapKey{}, extras...), grown...)
	for _, i := range h.order(len(del), "delorder") {
		dst.Clear(del[i])
	}
}

// ---------------------------------------------------------------------------
// Struct-literal style construction with reflect (no call into generated code
// other than allocating the Go types).

// wrapperFor finds the oneof wrapper type for a field number of a message.
func wrapperFor(md protoreflect.MessageDescriptor, num protoreflect.FieldNumber) (reflect.Type, error) {
	mt, err := protoregistry.GlobalTypes.FindMessageByName(md.FullName())
	if err != nil {
		return nil, err
	}
	mi, ok := mt.(*protoimpl.MessageInfo)
	if !ok {
		return nil, fmt.Errorf("%s: registered type is %T, not *protoimpl.MessageInfo", md.FullName(), mt)
	}
	for _, w := range mi.OneofWrappers {
		wt := reflect.TypeOf(w)
		if wt.Kind() != reflect.Pointer || wt.Elem().Kind() != reflect.Struct || wt.Elem().NumField() != 1 {
			continue
		}
		if n, ok := TagNumber(wt.Elem().Field(0).Tag.Get("protobuf")); ok && protoreflect.FieldNumber(n) == num {
			return wt, nil
		}
	}
	return nil, fmt.Errorf("%s: no oneof wrapper for field %d", md.FullName(), num)
}

// BuildStruct constructs the value by assigning the exported struct fields.
func (h *History) BuildStruct(av protoreflect.Message, mt protoreflect.MessageType) (m proto.Message, err error) {
	defer func() {
		if r := recover(); r != nil {
			err = fmt.Errorf("struct build panicked: %v", r)
		}
	}()
	var typ reflect.Type
	if mi, ok := mt.(*protoimpl.MessageInfo); ok && mi.GoReflectType != nil {
		typ = mi.GoReflectType.Elem() // no call into the generated code at all
	} else {
		typ = reflect.TypeOf(mt.New().Interface()).Elem()
	}
	pv := reflect.New(typ)
	if err := h.fillStruct(pv, av); err != nil {
		return nil, err
	}
	return pv.Interface().(proto.Message), nil
}

func (h *History) fillStruct(pv reflect.Value, av protoreflect.Message) error {
	md := av.Descriptor()
	sv := pv.Elem()
	st := sv.Type()
	for i := 0; i < st.NumField(); i++ {
		sf := st.Field(i)
		f := sv.Field(i)
		if tag := sf.Tag.Get("protobuf"); tag != "" {
			n, _ := TagNumber(tag)
			fd := md.Fields().ByNumber(protoreflect.FieldNumber(n))
			if fd == nil {
				return fmt.Errorf("%s: struct has tag %d unknown to descriptor", md.FullName(), n)
			}
			if !av.Has(fd) {
				if h.EmptyNotNil {
					switch {
					case fd.IsMap():
						f.Set(reflect.MakeMap(f.Type()))
					case fd.IsList():
						f.Set(reflect.MakeSlice(f.Type(), 0, h.EmptyCap))
					case fd.Kind() == protoreflect.BytesKind:
						f.SetBytes([]byte{})
					}
				}
				continue
			}
			if err := h.setStructField(f, fd, av.Get(fd)); err != nil {
				return err
			}
		} else if sf.Tag.Get("protobuf_oneof") != "" {
			od := md.Oneofs().ByName(protoreflect.Name(sf.Tag.Get("protobuf_oneof")))
			if od == nil {
				return fmt.Errorf("%s: oneof %q unknown", md.FullName(), sf.Tag.Get("protobuf_oneof"))
			}
			fd := av.WhichOneof(od)
			if fd == nil {
				continue
			}
			wt, err := wrapperFor(md, fd.Number())
			if err != nil {
				return err
			}
			w := reflect.New(wt.Elem())
			if err := h.setStructField(w.Elem().Field(0), fd, av.Get(fd)); err != nil {
				return err
			}
			f.Set(w)
		}
	}
	if u := av.GetUnknown(); len(u) > 0 {
		// unknownFields is unexported: go through the reflection API for this one.
		pv.Interface().(proto.Message).ProtoReflect().SetUnknown(append(protoreflect.RawFields{}, u...))
	} else if h.EmptyUnknown {
		pv.Interface().(proto.Message).ProtoReflect().SetUnknown(protoreflect.RawFields{})
	}
	return nil
}

func (h *History) setScalar(f reflect.Value, fd protoreflect.FieldDescriptor, v protoreflect.Value) {
	switch fd.Kind() {
	case protoreflect.BoolKind:
		f.SetBool(v.Bool())
	case protoreflect.EnumKind:
		f.SetInt(int64(v.Enum()))
	case protoreflect.Int32Kind, protoreflect.Sint32Kind, protoreflect.Sfixed32Kind,
		protoreflect.Int64Kind, protoreflect.Sint64Kind, protoreflect.Sfixed64Kind:
		f.SetInt(v.Int())
	case protoreflect.Uint32Kind, protoreflect.Fixed32Kind, protoreflect.Uint64Kind, protoreflect.Fixed64Kind:
		f.SetUint(v.Uint())
	case protoreflect.FloatKind:
		// go through the bit pattern to keep NaN payloads
		f.Set(reflect.ValueOf(float32(v.Float())).Convert(f.Type()))
	case protoreflect.DoubleKind:
		f.SetFloat(v.Float())
	case protoreflect.StringKind:
		f.SetString(v.String())
	case protoreflect.BytesKind:
		if len(v.Bytes()) == 0 && h.T.Chance("nil-empty-bytes", 1, 2) {
			f.SetBytes(nil) // an empty value may be a nil or an empty slice
			return
		}
		f.SetBytes(append([]byte{}, v.Bytes()...))
	}
}

func (h *History) setStructField(f reflect.Value, fd protoreflect.FieldDescriptor, v protoreflect.Value) error {
	switch {
	case fd.IsMap():
		src := v.Map()
		keys := SortedMapKeys(fd, src)
		var mp reflect.Value
		if h.SizeHint > 0 {
			mp = reflect.MakeMapWithSize(f.Type(), h.SizeHint)
		} else {
			mp = reflect.MakeMap(f.Type())
		}
		kt, vt := f.Type().Key(), f.Type().Elem()
		mkKey := func(k protoreflect.MapKey) reflect.Value {
			kv := reflect.New(kt).Elem()
			h.setScalar(kv, fd.MapKey(), k.Value())
			return kv
		}
		var extra []reflect.Value
		if h.GrowTo > 0 || h.Extras > 0 {
			for _, k := range extraKeys(h.T, fd, src, h.GrowTo+h.Extras) {
				kv := mkKey(k)
				zero := reflect.New(vt).Elem()
				if vt.Kind() == reflect.Pointer {
					zero = reflect.New(vt.Elem())
				}
				mp.SetMapIndex(kv, zero)
				extra = append(extra, kv)
			}
		}
		for _, i := range h.order(len(keys), "keyorder") {
			k := keys[i]
			val := reflect.New(vt).Elem()
			if fd.MapValue().Kind() == protoreflect.MessageKind {
				nv := reflect.New(vt.Elem())
				if err := h.fillStruct(nv, src.Get(k).Message()); err != nil {
					return err
				}
				val = nv
			} else {
				h.setScalar(val, fd.MapValue(), src.Get(k))
			}
			mp.SetMapIndex(mkKey(k), val)
		}
		for _, i := range h.order(len(extra), "delorder") {
			mp.SetMapIndex(extra[i], reflect.Value{})
		}
		f.Set(mp)
	case fd.IsList():
		sl := v.List()
		out := reflect.MakeSlice(f.Type(), sl.Len(), sl.Len()+h.T.Draw("slicecap", 3))
		for j := 0; j < sl.Len(); j++ {
			if fd.Kind() == protoreflect.MessageKind {
				nv := reflect.New(f.Type().Elem().Elem())
				if err := h.fillStruct(nv, sl.Get(j).Message()); err != nil {
					return err
				}
				out.Index(j).Set(nv)
			} else {
				h.setScalar(out.Index(j), fd, sl.Get(j))
			}
		}
		f.Set(out)
	case fd.Kind() == protoreflect.MessageKind:
		nv := reflect.New(f.Type().Elem())
		if err := h.fillStruct(nv, v.Message()); err != nil {
			return err
		}
		f.Set(nv)
	default:
		h.setScalar(f, fd, v)
	}
	return nil
}
