package simval

import (
	"fmt"
	"math"

	"github.com/cosmos/cosmos-proto/internal/verifsim/simhook"
	"google.golang.org/protobuf/encoding/protowire"
	"google.golang.org/protobuf/reflect/protoreflect"
	"google.golang.org/protobuf/types/dynamicpb"
)

// GenCfg bounds the abstract values drawn from the tape.
type GenCfg struct {
	MaxDepth      int // nesting levels below the top
	MaxFields     int // populated fields per message
	MaxMapEntries int
	MaxListLen    int
	Unknown       bool // allow unknown-field records
	// AnyTargets: message types that google.protobuf.Any fields may pack (a
	// resolvable type URL and a well-formed value carrying unknown records), so
	// that library code which expands an Any decodes real payloads.
	AnyTargets []protoreflect.MessageDescriptor
	// BigLists: now and then a repeated message field gets several hundred
	// (empty) elements, enough to cross any "large list" threshold.
	BigLists bool
	// InvalidUTF8: string values may be invalid UTF-8 (a legal Go string a
	// caller can put into a message; encoders may reject it, readers must not
	// rewrite it).
	InvalidUTF8 bool
	// Huge: now and then a string or bytes value of 32 KiB .. 70 KB (size
	// thresholds of pools, staging buffers, "large payload" fast paths).
	Huge bool
	// ManyKeys: now and then a string-keyed map with a few hundred to a few
	// thousand distinct short keys (fills per-process tables and caches).
	ManyKeys bool
}

var int32Pool = []int64{0, 1, -1, 2, 127, 128, -128, -129, 255, 256, 16383, 16384, math.MaxInt32, math.MinInt32, math.MaxInt32 - 1, math.MinInt32 + 1, 1 << 30, -(1 << 30), 65536, -65536}
var int64Pool = []int64{0, 1, -1, 2, 127, 128, -128, math.MaxInt32, math.MinInt32, 1 << 31, -(1 << 31) - 1, 1 << 32, -(1 << 32), math.MaxInt64, math.MinInt64, math.MaxInt64 - 1, math.MinInt64 + 1, 1 << 62, -(1 << 62), 1<<56 - 1}
var uint32Pool = []uint64{0, 1, 2, 127, 128, 255, 256, 16384, 1<<31 - 1, 1 << 31, 1<<31 + 1, math.MaxUint32, math.MaxUint32 - 1, 65535, 65536}
var uint64Pool = []uint64{0, 1, 2, 127, 128, 1<<31 - 1, 1 << 31, math.MaxUint32, 1 << 32, 1<<63 - 1, 1 << 63, 1<<63 + 1, math.MaxUint64, math.MaxUint64 - 1, 1 << 62}
var stringPool = []string{"", "a", "b", "aa", "ab", "ba", "A", "B", "a\x00", "a\x00b", "é", "é", "z", "10", "9", "09", "abcdefgh", "abcdefgi", "abcdefg", "abcdefghi", "key", "Key", "kez", "ÿ", "\U0001F600", " ", "a b", "~", "\x7f", "0",
	// equal-length keys sharing a long prefix (8, 16, 32 bytes): comparators that look at a prefix, a hash or a packed word only
	"validator/00", "validator/01", "validator/10", "abcdefgh1", "abcdefgh2", "0123456789abcdefX", "0123456789abcdefY",
	"0123456789abcdef0123456789abcdef-a", "0123456789abcdef0123456789abcdef-b"}
var f64Pool = []uint64{0, 0x8000000000000000, 0x3ff0000000000000, 0xbff0000000000000, 0x7ff0000000000000, 0xfff0000000000000, 0x7ff8000000000000, 0x7ff8000000000001, 0xfff8000000000000, 0x0000000000000001, 0x7fefffffffffffff, 0x400921fb54442d18}
var f32Pool = []uint32{0, 0x80000000, 0x3f800000, 0xbf800000, 0x7f800000, 0xff800000, 0x7fc00000, 0x7fc00001, 0xffc00000, 0x00000001, 0x7f7fffff, 0x40490fdb}

func drawInt(t *simhook.Tape, pool []int64, bits uint) int64 {
	i := t.Draw("int", len(pool)+2)
	if i < len(pool) {
		return pool[i]
	}
	v := int64(t.Seed64("intv"))
	if bits == 32 {
		return int64(int32(v))
	}
	return v<<2 ^ v
}

func drawUint(t *simhook.Tape, pool []uint64, bits uint) uint64 {
	i := t.Draw("uint", len(pool)+2)
	if i < len(pool) {
		return pool[i]
	}
	v := t.Seed64("uintv")
	if bits == 32 {
		return uint64(uint32(v))
	}
	return v<<2 ^ v
}

var hugeLens = []int{32768, 40000, 65535, 65536, 70001}

func drawString(t *simhook.Tape) string {
	if hugeValues && t.Chance("hugestr", 1, 12) {
		b := make([]byte, hugeLens[t.Draw("hugestrlen", len(hugeLens))])
		seed := uint64(t.Draw("hugestrseed", 1<<20))
		for j := range b {
			b[j] = byte('a' + simhook.SplitMix(&seed)%26)
		}
		return string(b)
	}
	i := t.Draw("str", len(stringPool)+3)
	if i < len(stringPool) {
		return stringPool[i]
	}
	n := 1 + t.Draw("strlen", 40)
	if t.Chance("longstr", 1, 12) {
		// long values cross size thresholds (32, 64, 256, 4096 bytes); filled by
		// a cheap generator so that the tape stays short
		n = []int{33, 65, 257, 1025, 4097}[t.Draw("longstrlen", 5)]
		seed := uint64(t.Draw("longstrseed", 1<<20))
		b := make([]byte, n)
		for j := range b {
			b[j] = byte('a' + simhook.SplitMix(&seed)%26)
		}
		return string(b)
	}
	b := make([]byte, n)
	for j := range b {
		b[j] = byte('a' + t.Draw("strch", 26))
	}
	return string(b)
}

func drawBytes(t *simhook.Tape) []byte {
	if hugeValues && t.Chance("hugebytes", 1, 12) {
		b := make([]byte, hugeLens[t.Draw("hugebyteslen", len(hugeLens))])
		seed := uint64(t.Draw("hugebytesseed", 1<<20))
		for j := range b {
			b[j] = byte(simhook.SplitMix(&seed))
		}
		return b
	}
	switch t.Draw("bytes", 7) {
	case 6:
		return []byte{} // the zero value: legal in oneof members, list elements and map values
	case 0:
		return []byte{1}
	case 1:
		return []byte{0}
	case 2:
		return []byte{0xff, 0x00, 0x80}
	case 3:
		return []byte("bytes")
	}
	n := 1 + t.Draw("byteslen", 48)
	if t.Chance("longbytes", 1, 12) {
		n = []int{33, 65, 257, 1025, 4097}[t.Draw("longbyteslen", 5)]
		seed := uint64(t.Draw("longbytesseed", 1<<20))
		b := make([]byte, n)
		for j := range b {
			b[j] = byte(simhook.SplitMix(&seed))
		}
		return b
	}
	b := make([]byte, n)
	for j := range b {
		b[j] = byte(t.Draw("byte", 256))
	}
	return b
}

var invalidStrings = []string{"\xff", "\xfe", "a\x80b", "a\x81b", "\xc3\x28", "ok\xed\xa0\x80", "ok\xed\xa0\x81", "k\xff", "k\xfe", "\xff\xff", "\xff\xfe"}

// invalidUTF8 is switched on by Gen for the duration of one value (the tape
// owner is single-threaded).
var invalidUTF8 bool

// hugeValues likewise (GenCfg.Huge).
var hugeValues bool

// DrawScalar draws one value of the field's kind (not for message kinds).
func DrawScalar(t *simhook.Tape, fd protoreflect.FieldDescriptor) protoreflect.Value {
	switch fd.Kind() {
	case protoreflect.BoolKind:
		return protoreflect.ValueOfBool(t.Draw("bool", 2) == 1)
	case protoreflect.Int32Kind, protoreflect.Sint32Kind, protoreflect.Sfixed32Kind:
		return protoreflect.ValueOfInt32(int32(drawInt(t, int32Pool, 32)))
	case protoreflect.Int64Kind, protoreflect.Sint64Kind, protoreflect.Sfixed64Kind:
		return protoreflect.ValueOfInt64(drawInt(t, int64Pool, 64))
	case protoreflect.Uint32Kind, protoreflect.Fixed32Kind:
		return protoreflect.ValueOfUint32(uint32(drawUint(t, uint32Pool, 32)))
	case protoreflect.Uint64Kind, protoreflect.Fixed64Kind:
		return protoreflect.ValueOfUint64(drawUint(t, uint64Pool, 64))
	case protoreflect.FloatKind:
		return protoreflect.ValueOfFloat32(math.Float32frombits(f32Pool[t.Draw("f32", len(f32Pool))]))
	case protoreflect.DoubleKind:
		return protoreflect.ValueOfFloat64(math.Float64frombits(f64Pool[t.Draw("f64", len(f64Pool))]))
	case protoreflect.StringKind:
		if invalidUTF8 && t.Chance("invalid-utf8", 1, 4) {
			// pairs that differ in an ill-formed byte only: whoever decodes
			// strings to runes sees two equal strings
			return protoreflect.ValueOfString(invalidStrings[t.Draw("invalid-utf8-which", len(invalidStrings))])
		}
		return protoreflect.ValueOfString(drawString(t))
	case protoreflect.BytesKind:
		return protoreflect.ValueOfBytes(drawBytes(t))
	case protoreflect.EnumKind:
		vals := fd.Enum().Values()
		i := t.Draw("enum", vals.Len()+1)
		if i < vals.Len() {
			return protoreflect.ValueOfEnum(vals.Get(i).Number())
		}
		return protoreflect.ValueOfEnum(protoreflect.EnumNumber(int32(drawInt(t, int32Pool, 32))))
	}
	panic("DrawScalar: message kind")
}

// drawNonZeroScalar draws until the value is populated in proto3 terms.
func drawPopulatedScalar(t *simhook.Tape, fd protoreflect.FieldDescriptor) (protoreflect.Value, bool) {
	for tries := 0; tries < 4; tries++ {
		v := DrawScalar(t, fd)
		if scalarPopulated(fd, v) {
			return v, true
		}
	}
	return protoreflect.Value{}, false
}

func scalarPopulated(fd protoreflect.FieldDescriptor, v protoreflect.Value) bool {
	switch fd.Kind() {
	case protoreflect.BoolKind:
		return v.Bool()
	case protoreflect.FloatKind:
		return math.Float32bits(float32(v.Float())) != 0
	case protoreflect.DoubleKind:
		return math.Float64bits(v.Float()) != 0
	case protoreflect.StringKind:
		return len(v.String()) > 0
	case protoreflect.BytesKind:
		return len(v.Bytes()) > 0
	case protoreflect.EnumKind:
		return v.Enum() != 0
	case protoreflect.Uint32Kind, protoreflect.Fixed32Kind, protoreflect.Uint64Kind, protoreflect.Fixed64Kind:
		return v.Uint() != 0
	default:
		return v.Int() != 0
	}
}

type fieldClasses struct {
	all, maps, msgs, anys []protoreflect.FieldDescriptor
}

var classCache = map[protoreflect.FullName]*fieldClasses{}

func classify(md protoreflect.MessageDescriptor) *fieldClasses {
	if c, ok := classCache[md.FullName()]; ok {
		return c
	}
	c := &fieldClasses{}
	for _, fd := range sortedFields(md) {
		c.all = append(c.all, fd)
		if m := fd.Message(); m != nil && !fd.IsMap() && m.FullName() == "google.protobuf.Any" {
			c.anys = append(c.anys, fd)
		}
		if fd.IsMap() {
			c.maps = append(c.maps, fd)
			if fd.MapValue().Kind() == protoreflect.MessageKind {
				c.msgs = append(c.msgs, fd)
			}
		} else if fd.Kind() == protoreflect.MessageKind {
			c.msgs = append(c.msgs, fd)
		}
	}
	classCache[md.FullName()] = c
	return c
}

// Gen draws an abstract value of the given type. Zero draws give the empty
// message. Maps are favoured, and message-bearing fields are favoured while
// depth remains, so that maps with several entries occur below the top level.
func Gen(t *simhook.Tape, md protoreflect.MessageDescriptor, cfg GenCfg) *dynamicpb.Message {
	invalidUTF8, hugeValues = cfg.InvalidUTF8, cfg.Huge
	defer func() { invalidUTF8, hugeValues = false, false }()
	return gen(t, md, cfg, 0)
}

func gen(t *simhook.Tape, md protoreflect.MessageDescriptor, cfg GenCfg, depth int) *dynamicpb.Message {
	m := dynamicpb.NewMessage(md)
	if md.FullName() == "google.protobuf.Any" && len(cfg.AnyTargets) > 0 && t.Chance("valid-any", 2, 3) {
		target := cfg.AnyTargets[t.Draw("any-target", len(cfg.AnyTargets))]
		sub := cfg
		sub.Unknown = true
		sub.MaxFields = 3
		if sub.MaxDepth > depth+1 {
			sub.MaxDepth = depth + 1
		}
		payload := gen(t, target, sub, depth+1)
		prefix := []string{"type.googleapis.com/", "/", "example.org/types/"}[t.Draw("any-prefix", 3)]
		m.Set(md.Fields().ByName("type_url"), protoreflect.ValueOfString(prefix+string(target.FullName())))
		val := (&EncodeOpts{T: t, Shuffle: true, Unknowns: true}).Encode(payload)
		if len(val) > 0 {
			m.Set(md.Fields().ByName("value"), protoreflect.ValueOfBytes(val))
		}
		return m
	}
	if md.FullName() == "google.protobuf.Any" && invalidUTF8 && t.Chance("unencodable-any", 1, 2) {
		// an Any that cannot be encoded (protobuf-go validates the UTF-8 of its
		// type_url): every Marshal of a message holding it fails part-way
		m.Set(md.Fields().ByName("type_url"), protoreflect.ValueOfString("type.googleapis.com/"+invalidStrings[t.Draw("invalid-utf8-which", len(invalidStrings))]))
		m.Set(md.Fields().ByName("value"), protoreflect.ValueOfBytes([]byte{8, 1}))
		return m
	}
	cl := classify(md)
	if len(cl.all) == 0 {
		// a message without declared fields: unknown records are all it can hold
		if cfg.Unknown && t.Chance("unknown-fieldless", 1, 2) {
			m.SetUnknown(genUnknown(t, md))
		}
		return m
	}
	maxF := cfg.MaxFields
	if depth > 0 {
		maxF = (cfg.MaxFields + 1) / 2
	}
	if depth > 1 && maxF > 2 {
		maxF = 2
	}
	nf := t.Draw("nfields", maxF+1)
	for i := 0; i < nf; i++ {
		var fd protoreflect.FieldDescriptor
		switch c := t.Draw("fclass", 10); {
		case c == 9 && len(cl.anys) > 0 && len(cfg.AnyTargets) > 0:
			fd = cl.anys[t.Draw("fanyfield", len(cl.anys))]
		case c >= 6 && len(cl.maps) > 0:
			fd = cl.maps[t.Draw("fmap", len(cl.maps))]
		case c >= 3 && len(cl.msgs) > 0 && depth < cfg.MaxDepth:
			fd = cl.msgs[t.Draw("fmsg", len(cl.msgs))]
		default:
			fd = cl.all[t.Draw("fany", len(cl.all))]
		}
		if m.Has(fd) {
			continue
		}
		if od := fd.ContainingOneof(); od != nil && !od.IsSynthetic() && m.WhichOneof(od) != nil {
			continue
		}
		genField(t, m, fd, cfg, depth)
	}
	if cfg.Unknown && t.Chance("unknown", 1, 6) {
		m.SetUnknown(genUnknown(t, md))
	}
	return m
}

func genField(t *simhook.Tape, m *dynamicpb.Message, fd protoreflect.FieldDescriptor, cfg GenCfg, depth int) {
	switch {
	case fd.IsMap():
		n := 1 + t.Draw("mapn", cfg.MaxMapEntries)
		if n == 1 && cfg.MaxMapEntries >= 2 {
			n = 2 // most of the interest lies in maps with several entries
			if t.Chance("map1", 1, 8) {
				n = 1
			}
		}
		mp := m.Mutable(fd).Map()
		kfd, vfd := fd.MapKey(), fd.MapValue()
		if cfg.ManyKeys && kfd.Kind() == protoreflect.StringKind && vfd.Kind() != protoreflect.MessageKind && t.Chance("manykeys", 1, 6) {
			many := []int{300, 1100, 2100}[t.Draw("manykeysn", 3)]
			v := DrawScalar(t, vfd)
			base := t.Draw("manykeysbase", 1<<24) // distinct from other values' keys, most of the time
			for i := 0; i < many; i++ {
				mp.Set(protoreflect.ValueOfString(fmt.Sprintf("k%x-%d", base, i)).MapKey(), v)
			}
			return
		}
		for i := 0; i < n; i++ {
			k := DrawScalar(t, kfd).MapKey()
			var v protoreflect.Value
			if vfd.Kind() == protoreflect.MessageKind {
				if depth < cfg.MaxDepth {
					v = protoreflect.ValueOfMessage(gen(t, vfd.Message(), cfg, depth+1))
				} else {
					v = protoreflect.ValueOfMessage(dynamicpb.NewMessage(vfd.Message()))
				}
			} else {
				v = DrawScalar(t, vfd)
			}
			mp.Set(k, v)
		}
	case fd.IsList():
		n := 1 + t.Draw("listn", cfg.MaxListLen)
		l := m.Mutable(fd).List()
		if cfg.BigLists && fd.Kind() == protoreflect.MessageKind && fd.Message().Fields().Len() <= 12 && t.Chance("biglist", 1, 48) {
			for i, big := 0, 513+t.Draw("biglistn", 24); i < big; i++ {
				l.Append(protoreflect.ValueOfMessage(dynamicpb.NewMessage(fd.Message())))
			}
			return
		}
		for i := 0; i < n; i++ {
			if fd.Kind() == protoreflect.MessageKind {
				if depth < cfg.MaxDepth {
					l.Append(protoreflect.ValueOfMessage(gen(t, fd.Message(), cfg, depth+1)))
				} else {
					l.Append(protoreflect.ValueOfMessage(dynamicpb.NewMessage(fd.Message())))
				}
			} else {
				l.Append(DrawScalar(t, fd))
			}
		}
	case fd.Kind() == protoreflect.MessageKind:
		if depth < cfg.MaxDepth {
			m.Set(fd, protoreflect.ValueOfMessage(gen(t, fd.Message(), cfg, depth+1)))
		} else {
			m.Set(fd, protoreflect.ValueOfMessage(dynamicpb.NewMessage(fd.Message())))
		}
	default:
		if od := fd.ContainingOneof(); od != nil && !od.IsSynthetic() {
			m.Set(fd, DrawScalar(t, fd)) // oneof members may hold their zero value
			return
		}
		if v, ok := drawPopulatedScalar(t, fd); ok {
			m.Set(fd, v)
		}
	}
}

// genUnknown produces a few well-formed records with numbers the schema does
// not use.
func genUnknown(t *simhook.Tape, md protoreflect.MessageDescriptor) []byte {
	var b []byte
	n := 1 + t.Draw("unkn", 3)
	for i := 0; i < n; i++ {
		num := protowire.Number(0)
		for tries := 0; tries < 20; tries++ {
			cand := protowire.Number([]int{1000, 1001, 7, 15, 16, 2047, 2048, 100000, 536870910}[t.Draw("unknum", 9)])
			if md.Fields().ByNumber(cand) == nil && !md.ReservedRanges().Has(cand) {
				num = cand
				break
			}
		}
		if num == 0 {
			continue
		}
		switch t.Draw("unktype", 4) {
		case 0:
			b = protowire.AppendTag(b, num, protowire.VarintType)
			b = protowire.AppendVarint(b, drawUint(t, uint64Pool, 64))
		case 1:
			b = protowire.AppendTag(b, num, protowire.Fixed32Type)
			b = protowire.AppendFixed32(b, uint32(drawUint(t, uint32Pool, 32)))
		case 2:
			b = protowire.AppendTag(b, num, protowire.Fixed64Type)
			b = protowire.AppendFixed64(b, drawUint(t, uint64Pool, 64))
		case 3:
			b = protowire.AppendTag(b, num, protowire.BytesType)
			b = protowire.AppendBytes(b, drawBytes(t))
		}
	}
	return b
}

// Probe describes where maps with >=2 entries sit in an abstract value.
type Probe struct {
	MultiMapDepth   [4]bool // depth 0,1,2,>=3
	InSingular      bool
	InListElem      bool
	InMapValue      bool
	InOneofMember   bool
	MaxMapLen       int
	Maps            int
	KeyKinds        map[protoreflect.Kind]bool
}

func ProbeValue(m protoreflect.Message) *Probe {
	p := &Probe{KeyKinds: map[protoreflect.Kind]bool{}}
	probe(m, 0, "", p)
	return p
}

func probe(m protoreflect.Message, depth int, pos string, p *Probe) {
	for _, fd := range sortedFields(m.Descriptor()) {
		if !m.Has(fd) {
			continue
		}
		v := m.Get(fd)
		switch {
		case fd.IsMap():
			mp := v.Map()
			p.Maps++
			if mp.Len() > p.MaxMapLen {
				p.MaxMapLen = mp.Len()
			}
			if mp.Len() >= 2 {
				d := depth
				if d > 3 {
					d = 3
				}
				p.MultiMapDepth[d] = true
				p.KeyKinds[fd.MapKey().Kind()] = true
				switch pos {
				case "singular":
					p.InSingular = true
				case "list":
					p.InListElem = true
				case "mapvalue":
					p.InMapValue = true
				case "oneof":
					p.InOneofMember = true
				}
			}
			if fd.MapValue().Kind() == protoreflect.MessageKind {
				for _, k := range SortedMapKeys(fd, mp) {
					probe(mp.Get(k).Message(), depth+1, "mapvalue", p)
				}
			}
		case fd.IsList():
			if fd.Kind() == protoreflect.MessageKind {
				l := v.List()
				for i := 0; i < l.Len(); i++ {
					probe(l.Get(i).Message(), depth+1, "list", p)
				}
			}
		case fd.Kind() == protoreflect.MessageKind:
			where := "singular"
			if od := fd.ContainingOneof(); od != nil && !od.IsSynthetic() {
				where = "oneof"
			}
			probe(v.Message(), depth+1, where, p)
		}
	}
}
