// Package engcchild is the child side of engine C: one process = one
// invocation of the real plugin main function (copied into an importable
// package at check time), inside a testing/synctest bubble so that the clock
// is simulated, with map iteration order in the generator packages decided by
// the spec. Stdin is the request; the response goes to the file the spec names.
package engcchild

import (
	"encoding/json"
	"fmt"
	"os"
	"runtime/debug"
	"testing"
	"testing/synctest"
	"time"

	"github.com/cosmos/cosmos-proto/internal/verifsim/pluginmain"
	"github.com/cosmos/cosmos-proto/internal/verifsim/simhook"
)

type spec struct {
	OrderSeed  uint64 `json:"order_seed"`
	OrderMode  int    `json:"order_mode"`
	ClockJumpS int64  `json:"clock_jump_s"`
	Request    string `json:"request"`
	Out        string `json:"out"`
	Outcome    string `json:"outcome"`
}

type outcome struct {
	Class       string `json:"class"` // "returned" or "panic"
	Panic       string `json:"panic,omitempty"`
	FakeNow     string `json:"fake_now"`
	MapVisits   uint64 `json:"map_range_visits"`
	MultiVisits uint64 `json:"map_range_visits_2plus_keys"`
	AddrSorted  uint64 `json:"pointer_key_address_fallback"`
	VecHash     uint64 `json:"order_vector_hash"`
	MaxKeys     int    `json:"max_keys"`
}

func TestChild(t *testing.T) {
	path := os.Getenv("VERIFSIM_SPEC")
	if path == "" {
		t.Skip("not a child invocation")
	}
	b, err := os.ReadFile(path)
	if err != nil {
		t.Fatal(err)
	}
	var sp spec
	if err := json.Unmarshal(b, &sp); err != nil {
		t.Fatal(err)
	}
	in, err := os.Open(sp.Request)
	if err != nil {
		t.Fatal(err)
	}
	out, err := os.Create(sp.Out)
	if err != nil {
		t.Fatal(err)
	}
	realStdout := os.Stdout
	var oc outcome
	synctest.Test(t, func(t *testing.T) {
		if sp.ClockJumpS > 0 {
			time.Sleep(time.Duration(sp.ClockJumpS) * time.Second)
		}
		oc.FakeNow = time.Now().UTC().Format(time.RFC3339)
		ctl := &simhook.OrderCtl{Seed: sp.OrderSeed, Mode: sp.OrderMode, NoSiteStats: true}
		simhook.Ord = ctl
		os.Stdin, os.Stdout = in, out
		os.Args = os.Args[:1] // the plugin must not see the test binary's flags
		func() {
			defer func() {
				if r := recover(); r != nil {
					oc.Class = "panic"
					oc.Panic = fmt.Sprintf("%v\n%s", r, debug.Stack())
				}
			}()
			pluginmain.Main()
			oc.Class = "returned"
		}()
		simhook.Ord = nil
		os.Stdout = realStdout
		oc.MapVisits, oc.MultiVisits, oc.AddrSorted, oc.VecHash, oc.MaxKeys = ctl.AllVisits, ctl.Visits, ctl.AddrSorted, ctl.VecHash, ctl.MaxKeys
	})
	out.Close()
	ob, _ := json.Marshal(oc)
	if err := os.WriteFile(sp.Outcome, ob, 0o644); err != nil {
		t.Fatal(err)
	}
}
