// Engine C (property C13): code generation is deterministic and hermetic.
// One run = one request and several variants of its execution. Every variant
// is a fresh process. The simulated leg runs the real plugin main function in
// a testing/synctest bubble (fake clock, tape-drawn jump) with map iteration
// order in the generator packages decided by the tape, under a tape-drawn
// environment, working directory and argv[0]; the configuration of the
// request (order and subset of files_to_generate, topological order of
// proto_file) is varied too. The native leg runs the real plugin binary.
// Oracle: keyed by name, the content of every generated file is byte-identical
// across all variants that generate it.
package main

import (
	"bytes"
	"crypto/sha256"
	"encoding/hex"
	"encoding/json"
	"fmt"
	"os"
	"os/exec"
	"path/filepath"
	"sort"
	"strings"
	"syscall"
	"time"

	"github.com/cosmos/cosmos-proto/internal/verifsim/shapesdesc"
	"github.com/cosmos/cosmos-proto/internal/verifsim/simhook"
	"github.com/cosmos/cosmos-proto/internal/verifsim/simrun"
	"google.golang.org/protobuf/proto"
	"google.golang.org/protobuf/reflect/protodesc"
	"google.golang.org/protobuf/reflect/protoregistry"
	"google.golang.org/protobuf/types/descriptorpb"
	"google.golang.org/protobuf/types/pluginpb"
)

var (
	childBin  string
	nativeBin string
	reqDir    string
	workDir   string
	baseReqs  []*pluginpb.CodeGeneratorRequest
	baseNames = []string{"testpb", "test3", "shapes", "cosmos"}
	wkDeps    []*descriptorpb.FileDescriptorProto
	descFile  *descriptorpb.FileDescriptorProto
	runCount  int
)

func main() {
	simrun.Main(&simrun.Engine{
		Name:     "C-gensim",
		Property: "C13",
		Init: func(p map[string]string) error {
			childBin, nativeBin, reqDir, workDir = p["child"], p["native"], p["reqdir"], p["work"]
			if childBin == "" || nativeBin == "" || reqDir == "" || workDir == "" {
				return fmt.Errorf("params child=,native=,reqdir=,work= are required")
			}
			workDir = filepath.Join(workDir, fmt.Sprintf("w%d", os.Getpid()))
			for _, d := range []string{"", "cwd-a", "cwd-b/deeper/still", "cwd with space"} {
				if err := os.MkdirAll(filepath.Join(workDir, d), 0o755); err != nil {
					return err
				}
			}
			for _, n := range baseNames {
				b, err := os.ReadFile(filepath.Join(reqDir, n+".req"))
				if err != nil {
					return err
				}
				r := &pluginpb.CodeGeneratorRequest{}
				if err := proto.Unmarshal(b, r); err != nil {
					return err
				}
				baseReqs = append(baseReqs, r)
			}
			if df, err := protoregistry.GlobalFiles.FindFileByPath(shapesdesc.DescriptorFile); err == nil {
				descFile = protodesc.ToFileDescriptorProto(df)
			} else {
				return err
			}
			for _, f := range baseReqs[2].ProtoFile {
				if strings.HasPrefix(f.GetName(), "google/protobuf/") {
					wkDeps = append(wkDeps, f)
				}
			}
			return nil
		},
		Run: run,
		Finish: func(st *simrun.Stats, extra map[string]interface{}) {
			if n := leftBehind; len(n) > 0 {
				extra["files_left_behind_by_plugin_processes"] = n
			}
			os.RemoveAll(workDir)
		},
	})
}

type variantSpec struct {
	Leg        string   `json:"leg"` // sim | native
	OrderMode  int      `json:"order_mode"`
	OrderSeed  uint64   `json:"order_seed"`
	ClockJumpS int64    `json:"clock_jump_s"`
	Env        []string `json:"env"`
	Cwd        string   `json:"cwd"`
	Argv0      string   `json:"argv0"`
	Generate   []string `json:"files_to_generate"`
	ProtoOrder []string `json:"proto_file_order"`
	Subset     bool     `json:"subset"`
	Hostname   string   `json:"hostname,omitempty"` // run in a private UTS namespace with this host name
	Procs      int      `json:"gomaxprocs,omitempty"`
}

type result struct {
	Class  string            // response | error | panic | exit
	Error  string            // plugin error string
	Files  map[string]string // name -> content
	Names  []string // sorted
	Order  []string // as they appear in the response
	Detail string
	Child  map[string]interface{}
}

// Every directory a plugin process could be tempted to keep state in (home,
// cache, temp) lies below $W, a directory of this run only: what one
// invocation leaves there is seen by later invocations of the same run that
// share the environment, by nothing else, and is gone after the run.
var envPool = [][]string{
	{"HOME=$W/home/root", "USER=root", "LANG=C", "TZ=UTC", "TMPDIR=$W/tmp"},
	{"HOME=$W/home/alice", "USER=alice", "LANG=en_US.UTF-8", "TZ=Asia/Tokyo", "SOURCE_DATE_EPOCH=1", "GOPATH=$W/home/alice/go", "TMPDIR=$W/tmp", "XDG_CACHE_HOME=$W/home/alice/xdg-cache"},
	{"HOME=$W/nonexistent", "USER=bob", "LOGNAME=bob", "LANG=de_DE.UTF-8", "LC_ALL=de_DE.UTF-8", "TZ=America/New_York", "SOURCE_DATE_EPOCH=1900000000", "GOPATH=$W/gp", "VERIFSIM_JUNK=x y z", "HOSTNAME=buildhost-17", "TMPDIR=$W/nonexistent-tmp"},
	{"USER=", "TZ=:/etc/localtime", "TMPDIR=$W/tmp-b", "HOME=$W/home/root", "PWD=/somewhere/else", "GOFLAGS=-mod=mod", "PROTOC_GEN_GO_PULSAR_DEBUG=1"},
	// the environment of the invocations that follow an earlier, different one
	{"HOME=$W/home/hist", "USER=root", "LANG=C", "TZ=UTC", "TMPDIR=$W/tmp-hist"},
}

const envHist = 4

var runHome string // $W of the current run

func newRunHome(n int) error {
	if runHome != "" {
		os.RemoveAll(runHome)
	}
	runHome = filepath.Join(workDir, fmt.Sprintf("w%d", n))
	for _, d := range []string{"home/root", "home/alice", "home/hist", "tmp", "tmp-b", "tmp-hist", "cwd/cwd-a", "cwd/cwd-b/deeper/still", "cwd/cwd with space"} {
		if err := os.MkdirAll(filepath.Join(runHome, d), 0o755); err != nil {
			return err
		}
	}
	return nil
}

func topoReorder(t *simhook.Tape, files []*descriptorpb.FileDescriptorProto) []*descriptorpb.FileDescriptorProto {
	// random topological order: repeatedly pick any file whose dependencies are all placed
	placed := map[string]bool{}
	var out []*descriptorpb.FileDescriptorProto
	rest := append([]*descriptorpb.FileDescriptorProto{}, files...)
	for len(rest) > 0 {
		var ready []int
		for i, f := range rest {
			ok := true
			for _, d := range f.Dependency {
				if !placed[d] {
					ok = false
				}
			}
			if ok {
				ready = append(ready, i)
			}
		}
		if len(ready) == 0 {
			return files // not a DAG (cannot happen for valid sets)
		}
		i := ready[t.Draw("topo", len(ready))]
		out = append(out, rest[i])
		placed[rest[i].GetName()] = true
		rest = append(rest[:i], rest[i+1:]...)
	}
	return out
}

func execVariant(c *simrun.Ctx, base *pluginpb.CodeGeneratorRequest, vs *variantSpec, tag string) *result {
	req := proto.Clone(base).(*pluginpb.CodeGeneratorRequest)
	req.FileToGenerate = vs.Generate
	if vs.ProtoOrder != nil {
		byName := map[string]*descriptorpb.FileDescriptorProto{}
		for _, f := range req.ProtoFile {
			byName[f.GetName()] = f
		}
		var pf []*descriptorpb.FileDescriptorProto
		for _, n := range vs.ProtoOrder {
			pf = append(pf, byName[n])
		}
		req.ProtoFile = pf
	}
	rb, err := proto.MarshalOptions{Deterministic: true}.Marshal(req)
	if err != nil {
		c.EngineError = "marshal request: " + err.Error()
		return nil
	}
	reqFile := filepath.Join(workDir, tag+".req")
	outFile := filepath.Join(workDir, tag+".resp")
	ocFile := filepath.Join(workDir, tag+".outcome")
	specFile := filepath.Join(workDir, tag+".spec")
	os.Remove(outFile)
	os.Remove(ocFile)
	if err := os.WriteFile(reqFile, rb, 0o644); err != nil {
		c.EngineError = err.Error()
		return nil
	}
	if keep := os.Getenv("VERIFSIM_KEEPREQ"); keep != "" {
		os.WriteFile(filepath.Join(keep, tag+".req"), rb, 0o644) // debugging aid
	}
	defer func() {
		for _, f := range []string{reqFile, outFile, ocFile, specFile} {
			os.Remove(f)
		}
	}()
	cwd := filepath.Join(runHome, "cwd", vs.Cwd)
	env := []string{"PATH=/usr/bin:/bin"}
	for _, e := range vs.Env {
		env = append(env, strings.ReplaceAll(e, "$W", runHome))
	}
	var cmd *exec.Cmd
	var stderr bytes.Buffer
	res := &result{Files: map[string]string{}}
	var respBytes []byte
	var nativeOut bytes.Buffer
	if vs.Leg == "sim" {
		sp := map[string]interface{}{"order_seed": vs.OrderSeed, "order_mode": vs.OrderMode, "clock_jump_s": vs.ClockJumpS, "request": reqFile, "out": outFile, "outcome": ocFile}
		sb, _ := json.Marshal(sp)
		os.WriteFile(specFile, sb, 0o644)
		cmd = &exec.Cmd{Path: childBin, Args: []string{vs.Argv0, "-test.run=^TestChild$", "-test.count=1"}, Dir: cwd,
			Env: append(env, "VERIFSIM_SPEC="+specFile, "GODEBUG=asynctimerchan=0", fmt.Sprintf("GOMAXPROCS=%d", procsOf(vs)))}
		cmd.Stderr = &stderr
		cmd.Stdout = &stderr
	} else {
		in, err := os.Open(reqFile)
		if err != nil {
			c.EngineError = err.Error()
			return nil
		}
		defer in.Close()
		cmd = &exec.Cmd{Path: nativeBin, Args: []string{vs.Argv0}, Dir: cwd, Env: append(env, fmt.Sprintf("GOMAXPROCS=%d", procsOf(vs)))}
		cmd.Stdin = in
		cmd.Stdout = &nativeOut
		cmd.Stderr = &stderr
	}
	if vs.Hostname != "" && unshareOK {
		// private UTS namespace: os.Hostname() in the plugin sees vs.Hostname
		inner := append([]string{vs.Hostname, cmd.Args[0], cmd.Path}, cmd.Args[1:]...)
		cmd.Path = "/usr/bin/unshare"
		cmd.Args = append([]string{"unshare", "-u", "/bin/bash", "-c", `hostname "$0" && exec -a "$1" "$2" "${@:3}"`}, inner...)
	}
	done := make(chan error, 1)
	if err := cmd.Start(); err != nil {
		c.EngineError = "start child: " + err.Error()
		return nil
	}
	go func() { done <- cmd.Wait() }()
	var werr error
	select {
	case werr = <-done:
	case <-time.After(120 * time.Second):
		cmd.Process.Signal(syscall.SIGKILL)
		<-done
		c.EngineError = "child watchdog: no answer within 120 s (" + tag + ")"
		return nil
	}
	if vs.Leg == "sim" {
		ob, oerr := os.ReadFile(ocFile)
		if oerr != nil {
			// the plugin called os.Exit (or the child died): no outcome file
			res.Class = "exit"
			res.Detail = fmt.Sprintf("%v: %s", werr, tailStr(stderr.String(), 800))
			if strings.Contains(stderr.String(), "testing/synctest") || strings.Contains(stderr.String(), "flag provided but not defined") || strings.Contains(stderr.String(), "should be run by protoc") {
				c.EngineError = "child harness failure: " + tailStr(stderr.String(), 1500)
				return nil
			}
			return res
		}
		json.Unmarshal(ob, &res.Child)
		if res.Child["class"] == "panic" {
			res.Class = "panic"
			res.Detail = fmt.Sprint(res.Child["panic"])
			return res
		}
		if werr != nil {
			c.EngineError = fmt.Sprintf("child test binary failed after the plugin returned: %v: %s", werr, tailStr(stderr.String(), 1500))
			return nil
		}
		respBytes, _ = os.ReadFile(outFile)
	} else {
		respBytes = nativeOut.Bytes()
		if werr != nil {
			res.Class = "exit"
			if strings.Contains(stderr.String(), "panic:") {
				res.Class = "panic"
			}
			res.Detail = fmt.Sprintf("%v: %s", werr, tailStr(stderr.String(), 800))
			return res
		}
	}
	resp := &pluginpb.CodeGeneratorResponse{}
	if err := proto.Unmarshal(respBytes, resp); err != nil {
		res.Class = "garbled-response"
		res.Detail = err.Error()
		return res
	}
	if resp.Error != nil {
		res.Class = "error"
		res.Error = resp.GetError()
		return res
	}
	res.Class = "response"
	for _, f := range resp.File {
		name := f.GetName()
		if _, dup := res.Files[name]; dup {
			res.Class = "response-duplicate-name"
			res.Detail = name
		}
		res.Files[name] = f.GetContent()
		res.Names = append(res.Names, name)
		res.Order = append(res.Order, name)
	}
	sort.Strings(res.Names)
	return res
}

func procsOf(vs *variantSpec) int {
	if vs.Procs > 0 {
		return vs.Procs
	}
	return 2
}

func tailStr(s string, n int) string {
	if len(s) > n {
		return "..." + s[len(s)-n:]
	}
	return s
}

func hashOf(s string) string {
	h := sha256.Sum256([]byte(s))
	return hex.EncodeToString(h[:8])
}

func baseOf(protoName string) string {
	b := filepath.Base(protoName)
	return strings.TrimSuffix(b, ".proto") + ".pulsar.go"
}

var unshareOK = func() bool {
	out, err := exec.Command("/usr/bin/unshare", "-u", "/bin/bash", "-c", "hostname verifsim-probe && hostname").Output()
	return err == nil && strings.TrimSpace(string(out)) == "verifsim-probe"
}()

var paramPool = []string{"features=all+bogus", "features=bogus+all", "features=fast+all+extra", "features=nope+nada", "features=fast+fast", "features=protoc+fast,module=example.com/rnd", "paths=source_relative,features=fast", "features=fast,pool=example.com/rnd/pkg0.Params,pool=example.com/rnd/pkg1.Msg", "pool=example.com/rnd/pkg0.Item,features=protoc+fast", "features=protoc+fast", "features=fast", "features=all", "", "features=fast+protoc", "features=protoc", "features=protoc+fast,paths=source_relative", "features=fast,paths=import"}

func run(c *simrun.Ctx) *simrun.Violation {
	t := c.T
	st := c.Stats
	runCount++
	if err := newRunHome(runCount); err != nil {
		c.EngineError = err.Error()
		return nil
	}
	var base *pluginpb.CodeGeneratorRequest
	src := t.Draw("source", 16) // 0-3: the four fixed requests; the rest: a random schema set
	srcName := "random"
	if src == 3 {
		base = proto.Clone(baseReqs[3]).(*pluginpb.CodeGeneratorRequest)
		srcName = baseNames[3]
		base.Parameter = proto.String(paramPool[t.Draw("param", len(paramPool))])
	} else if src < 3 {
		base = proto.Clone(baseReqs[src]).(*pluginpb.CodeGeneratorRequest)
		srcName = baseNames[src]
		if src == 2 && t.Chance("shapes-too-big", 3, 4) {
			// the full corpus package is large; most runs use a random set instead
			src = 4
		}
	}
	if src > 3 {
		srcName = "random"
		set := shapesdesc.RandomSet(t, shapesdesc.RandomOpts{AllowProto2: true, ReservedNames: true, Extensions: true, Services: true, LegacyPaths: true})
		needDesc := false
		for _, f := range set {
			for _, d := range f.Dependency {
				if d == shapesdesc.DescriptorFile {
					needDesc = true
				}
			}
		}
		all := append(append([]*descriptorpb.FileDescriptorProto{descFile}, wkDeps...), set...)
		if _, err := protodesc.NewFiles(&descriptorpb.FileDescriptorSet{File: all}); err != nil {
			c.EngineError = "random schema set invalid (harness bug): " + err.Error()
			return nil
		}
		base = &pluginpb.CodeGeneratorRequest{ProtoFile: set}
		if needDesc {
			base.ProtoFile = append([]*descriptorpb.FileDescriptorProto{descFile}, set...)
			st.Add("requests_with_custom_option_declarations", 1)
		}
		for _, f := range set {
			base.FileToGenerate = append(base.FileToGenerate, f.GetName())
		}
		p := paramPool[t.Draw("param", len(paramPool))]
		if t.Chance("mparam", 1, 4) && len(set) > 0 {
			f := set[t.Draw("mfile", len(set))]
			m := fmt.Sprintf("M%s=example.com/remapped/p%d;remapped", f.GetName(), t.Draw("mpkg", 2))
			if p == "" {
				p = m
			} else {
				p += "," + m
			}
		}
		if p != "" {
			base.Parameter = proto.String(p)
		}
	}
	if src > 3 {
		for _, what := range requestOddities(t, base) {
			st.Add("fault_request_"+what, 1)
		}
	}
	st.Add("requests_"+srcName, 1)
	full := append([]string{}, base.FileToGenerate...)
	var protoNames []string
	for _, f := range base.ProtoFile {
		protoNames = append(protoNames, f.GetName())
	}
	c.Tracef("request source=%s files_to_generate=%v parameter=%q proto_files=%d", srcName, full, base.GetParameter(), len(base.ProtoFile))

	nVar := 3 + t.Draw("nvariants", 5)
	var v0 *result
	var v0spec *variantSpec
	type seenFile struct {
		content string
		res     *result
		spec    *variantSpec
	}
	firstSeen := map[string]map[string]seenFile{"sim": {}, "native": {}}
	bySet := map[string]*result{}
	bySetSpec := map[string]*variantSpec{}
	for vi := 0; vi < nVar; vi++ {
		vs := &variantSpec{Leg: "sim", Env: envPool[0], Cwd: "", Argv0: "protoc-gen-go-pulsar", Generate: full}
		if vi > 0 {
			if t.Chance("native-leg", 1, 4) {
				vs.Leg = "native"
				st.Add("fault_native_fresh_process", 1)
			} else {
				vs.OrderMode = t.Draw("ordmode", simhook.OrdModes)
				vs.OrderSeed = uint64(t.Draw("ordseed", 1<<30))
				if vs.OrderMode != 0 {
					st.Add("fault_generator_map_order_permuted", 1)
				}
				switch t.Draw("clock", 4) {
				case 1:
					vs.ClockJumpS = 1 + int64(t.Draw("jump-small", 86400))
				case 2:
					vs.ClockJumpS = int64(t.Draw("jump-years", 50)+1) * 365 * 86400
				case 3:
					vs.ClockJumpS = 1_000_000_000 + int64(t.Draw("jump-big", 1<<30))
				}
				if vs.ClockJumpS > 0 {
					st.Add("fault_clock_jump", 1)
					st.Add("simulated_seconds", vs.ClockJumpS)
				}
			}
			if e := t.Draw("env", envHist); e > 0 {
				vs.Env = envPool[e]
				st.Add("fault_environment_changed", 1)
			}
			if d := t.Draw("cwd", 4); d > 0 {
				vs.Cwd = []string{"", "cwd-a", "cwd-b/deeper/still", "cwd with space"}[d]
				st.Add("fault_cwd_changed", 1)
			}
			if unshareOK && t.Chance("hostname", 1, 4) {
				vs.Hostname = []string{"buildhost-17", "ci-runner.internal.example"}[t.Draw("hostname-which", 2)]
				st.Add("fault_hostname_changed", 1)
			}
			if g := t.Draw("gomaxprocs", 4); g > 0 {
				vs.Procs = []int{0, 1, 4, 16}[g]
				st.Add("fault_gomaxprocs_changed", 1)
			}
			if a := t.Draw("argv0", 3); a > 0 {
				vs.Argv0 = []string{"", "/opt/tools/bin/protoc-gen-go-pulsar", "./x"}[a]
				st.Add("fault_argv0_changed", 1)
			}
			if len(full) > 1 {
				switch t.Draw("genconf", 3) {
				case 1:
					p := t.Perm("genperm", len(full))
					vs.Generate = nil
					for _, i := range p {
						vs.Generate = append(vs.Generate, full[i])
					}
					st.Add("fault_files_to_generate_permuted", 1)
				case 2:
					vs.Generate = nil
					for _, f := range full {
						if t.Chance("subset-keep", 1, 2) {
							vs.Generate = append(vs.Generate, f)
						}
					}
					if len(vs.Generate) == 0 {
						vs.Generate = []string{full[t.Draw("subset-one", len(full))]}
					}
					if len(vs.Generate) < len(full) {
						vs.Subset = true
						st.Add("fault_subset_of_cogenerated_files", 1)
					}
				}
			}
			if t.Chance("topo", 1, 3) {
				re := topoReorder(t, base.ProtoFile)
				changed := false
				for i, f := range re {
					vs.ProtoOrder = append(vs.ProtoOrder, f.GetName())
					if f.GetName() != protoNames[i] {
						changed = true
					}
				}
				if changed {
					st.Add("fault_proto_file_topological_reorder", 1)
				} else {
					vs.ProtoOrder = nil
				}
			}
		}
		r := execVariant(c, base, vs, fmt.Sprintf("r%d-v%d", runCount, vi))
		if r == nil {
			return nil // engine error set
		}
		st.Add("plugin_invocations", 1)
		st.Add("plugin_invocations_"+vs.Leg, 1)
		st.Add("outcome_"+r.Class, 1)
		if r.Child != nil {
			if f, ok := r.Child["map_range_visits_2plus_keys"].(float64); ok {
				st.Add("generator_map_range_visits_2plus_keys", int64(f))
			}
			if f, ok := r.Child["pointer_key_address_fallback"].(float64); ok {
				st.Add("probe_pointer_key_address_fallback", int64(f))
			}
			if f, ok := r.Child["max_keys"].(float64); ok {
				st.Max("max_generator_map_keys", int64(f))
			}
		}
		sb, _ := json.Marshal(vs)
		c.Tracef("variant %d: %s -> %s (%d files) %s", vi, sb, r.Class, len(r.Files), clip(r.Error, 200))
		c.Observe(uint64(vi), simhook.HashString(r.Class), simhook.HashString(r.Error), uint64(len(r.Files)))
		for _, n := range r.Names {
			c.Observe(simhook.HashString(n), simhook.HashString(r.Files[n]))
		}
		if vi == 0 {
			v0, v0spec = r, vs
			for _, n := range r.Names {
				firstSeen["sim"][n] = seenFile{r.Files[n], r, vs}
			}
			if r.Class == "response" && len(r.Files) > 0 {
				st.Add("requests_answered_with_files", 1)
			}
			c.Result = simhook.HashString(r.Class + "|" + r.Error)
			for _, n := range r.Names {
				c.Result = simhook.Mix(c.Result, simhook.HashString(n), simhook.HashString(r.Files[n]))
			}
			continue
		}
		mk := func(class string, other *result, otherSpec *variantSpec, extra map[string]interface{}) *simrun.Violation {
			d := map[string]interface{}{"source": srcName, "parameter": base.GetParameter(), "files_to_generate": full,
				"variant_a": otherSpec, "variant_b": vs, "outcome_a": other.Class + " " + clip(other.Error+other.Detail, 600), "outcome_b": r.Class + " " + clip(r.Error+r.Detail, 600)}
			for k, v := range extra {
				d[k] = v
			}
			return &simrun.Violation{Class: class, Detail: d}
		}
		// same set of generated files => everything must agree with the first variant of that set
		key := strings.Join(sortedCopy(vs.Generate), "\x00")
		ref, refSpec := bySet[key], bySetSpec[key]
		if !vs.Subset {
			ref, refSpec = v0, v0spec
		}
		if ref == nil {
			bySet[key], bySetSpec[key] = r, vs
		} else {
			// the text of a plugin error may legitimately name whichever broken
			// file is processed first, so it is compared only between variants
			// whose request is byte-identical (same order of files_to_generate
			// and of proto_file); otherwise only the outcome class is compared
			sameReq := strings.Join(refSpec.Generate, "\x00") == strings.Join(vs.Generate, "\x00") && strings.Join(refSpec.ProtoOrder, "\x00") == strings.Join(vs.ProtoOrder, "\x00")
			if ref.Class != r.Class || (r.Class == "error" && sameReq && ref.Error != r.Error) {
				return mk("C13:outcome-differs-for-same-request", ref, refSpec, nil)
			}
			if r.Class == "response" && strings.Join(ref.Names, "\x00") != strings.Join(r.Names, "\x00") {
				return mk("C13:file-set-differs-for-same-request", ref, refSpec, map[string]interface{}{"names_a": ref.Names, "names_b": r.Names})
			}
			if r.Class == "response" && sameReq && strings.Join(ref.Order, "\x00") != strings.Join(r.Order, "\x00") {
				// the response as a whole is a function of the request: for a
				// byte-identical request the files come in the same order
				return mk("C13:file-order-in-response-differs-for-same-request", ref, refSpec, map[string]interface{}{"order_a": ref.Order, "order_b": r.Order})
			}
		}
		if r.Class != "response" || v0.Class != "response" {
			continue
		}
		// per-file content: every file is compared with the first content seen
		// for that name in the SAME leg (the simulated leg is a test binary built
		// with go1.26.8, the native leg the plugin binary built with the default
		// toolchain: text that legitimately depends on how the plugin itself was
		// built must not be mistaken for dependence on the run)
		for _, n := range r.Names {
			if _, ok := v0.Files[n]; !ok {
				return mk("C13:file-generated-only-in-some-invocations", v0, v0spec, map[string]interface{}{"file": n, "names_a": v0.Names, "names_b": r.Names})
			}
			ref, ok := firstSeen[vs.Leg][n]
			if !ok {
				firstSeen[vs.Leg][n] = seenFile{r.Files[n], r, vs}
				continue
			}
			st.Add("file_contents_compared", 1)
			if ref.content != r.Files[n] {
				return mk("C13:file-content-differs", ref.res, ref.spec, map[string]interface{}{"file": n, "sha_a": hashOf(ref.content), "sha_b": hashOf(r.Files[n]), "diff": firstDiffLines(ref.content, r.Files[n])})
			}
		}
		// a requested file that yields output in the full invocation must yield it in a subset too
		if vs.Subset {
			exp := 0
			for _, g := range vs.Generate {
				for _, n := range v0.Names {
					if strings.HasSuffix(n, "/"+baseOf(g)) || n == baseOf(g) {
						exp++
						break
					}
				}
			}
			if exp != len(r.Names) {
				return mk("C13:file-set-depends-on-cogenerated-files", v0, v0spec, map[string]interface{}{"expected_outputs": exp, "names_a": v0.Names, "names_b": r.Names})
			}
		}
	}
	if v0 != nil && v0.Class == "response" && t.Chance("prior-invocation", 1, 3) {
		// Durable state: an EARLIER, different invocation in the same user
		// environment (home, cache and temp directories of their own), then the
		// request itself there. Whatever the earlier process left on disk, the
		// response must be the one a fresh environment gave.
		prior := proto.Clone(base).(*pluginpb.CodeGeneratorRequest)
		what := "parameter"
		if k := t.Draw("prior-kind", 3); k < 2 && len(prior.ProtoFile) > 0 {
			f := prior.ProtoFile[t.Draw("prior-file", len(prior.ProtoFile))]
			if f.Options == nil {
				f.Options = &descriptorpb.FileOptions{}
			}
			gp := f.Options.GetGoPackage()
			path, name := gp, ""
			if i := strings.Index(gp, ";"); i >= 0 {
				path, name = gp[:i], gp[i:]
			}
			if path == "" {
				path = "example.com/rnd/unnamed"
			}
			f.Options.GoPackage = proto.String(path + "/v2" + name)
			what = "go_package of " + f.GetName()
		} else {
			prior.Parameter = proto.String(paramPool[t.Draw("prior-param", len(paramPool))])
		}
		hs := &variantSpec{Leg: "sim", Env: envPool[envHist], Argv0: "protoc-gen-go-pulsar", Generate: full}
		rp := execVariant(c, prior, hs, fmt.Sprintf("r%d-prior", runCount))
		if rp == nil {
			return nil
		}
		r := execVariant(c, base, hs, fmt.Sprintf("r%d-after", runCount))
		if r == nil {
			return nil
		}
		st.Add("plugin_invocations", 2)
		st.Add("plugin_invocations_sim", 2)
		st.Add("fault_earlier_different_invocation_in_same_home_and_tmp", 1)
		c.Tracef("earlier invocation differing in %s -> %s; then the request itself in that environment -> %s (%d files)", what, rp.Class, r.Class, len(r.Files))
		c.Observe(simhook.HashString(rp.Class), simhook.HashString(r.Class), uint64(len(r.Files)))
		det := map[string]interface{}{"source": srcName, "parameter": base.GetParameter(), "files_to_generate": full, "earlier_invocation_differed_in": what,
			"earlier_outcome": rp.Class + " " + clip(rp.Error+rp.Detail, 300), "variant_a": v0spec, "variant_b": hs}
		if r.Class != v0.Class || strings.Join(r.Order, "\x00") != strings.Join(v0.Order, "\x00") {
			det["outcome_a"], det["outcome_b"] = v0.Class+" "+clip(v0.Error+v0.Detail, 400), r.Class+" "+clip(r.Error+r.Detail, 400)
			det["order_a"], det["order_b"] = v0.Order, r.Order
			return &simrun.Violation{Class: "C13:response-depends-on-an-earlier-invocation", Detail: det}
		}
		for _, n := range r.Names {
			st.Add("file_contents_compared", 1)
			if r.Files[n] != v0.Files[n] {
				det["file"], det["sha_a"], det["sha_b"], det["diff"] = n, hashOf(v0.Files[n]), hashOf(r.Files[n]), firstDiffLines(v0.Files[n], r.Files[n])
				return &simrun.Violation{Class: "C13:response-depends-on-an-earlier-invocation", Detail: det}
			}
		}
	}
	noteLeftBehind(st)
	if v0 != nil {
		names := v0.Names
		if len(names) > 4 {
			names = names[:4]
		}
		c.Sample = map[string]interface{}{"source": srcName, "files_to_generate": full, "parameter": base.GetParameter(), "variants": nVar, "outcome": v0.Class, "files": names, "trace": c.Trace}
	}
	return nil
}

// leftBehind: files plugin processes created in their home/cache/temp
// directories (reported in the evidence; not a violation by itself - the
// property is about the response).
var leftBehind []string

func noteLeftBehind(st *simrun.Stats) {
	if runHome == "" {
		return
	}
	filepath.Walk(runHome, func(p string, fi os.FileInfo, err error) error {
		if err == nil && !fi.IsDir() {
			st.Add("probe_files_left_behind_by_plugin_processes", 1)
			if len(leftBehind) < 5 {
				rel, _ := filepath.Rel(runHome, p)
				leftBehind = append(leftBehind, rel)
			}
		}
		return nil
	})
}

var commentPool = []string{" plain comment\n", " two\n lines\n", " has */ and // and /* inside\n", " trailing spaces   \n", "\ttab and unicode \u00e9\u4e16\n", " Deprecated: do not use.\n", "\n", " `backquotes` and \"quotes\" and \\ backslash\n"}

// requestOddities makes the request less tidy, the way real requests are: a
// source_code_info with comments (protoc always sends one for the files to
// generate), deprecated options, a compiler version - and, rarely, a request
// that is broken (a file without go_package, a file to generate that is not in
// proto_file, a proto_file listed twice), to which the plugin has to answer
// with the same error every time.
func requestOddities(t *simhook.Tape, req *pluginpb.CodeGeneratorRequest) []string {
	var done []string
	if t.Chance("odd-comments", 1, 3) {
		for _, f := range req.ProtoFile {
			if !strings.HasPrefix(f.GetName(), "rnd/") {
				continue
			}
			sci := &descriptorpb.SourceCodeInfo{}
			add := func(path ...int32) {
				if !t.Chance("odd-comment-here", 1, 2) {
					return
				}
				loc := &descriptorpb.SourceCodeInfo_Location{Path: path, Span: []int32{int32(len(sci.Location)), 0, 10}}
				loc.LeadingComments = proto.String(commentPool[t.Draw("odd-comment", len(commentPool))])
				if t.Chance("odd-trailing", 1, 4) {
					loc.TrailingComments = proto.String(commentPool[t.Draw("odd-comment", len(commentPool))])
				}
				if t.Chance("odd-detached", 1, 6) {
					loc.LeadingDetachedComments = []string{commentPool[t.Draw("odd-comment", len(commentPool))]}
				}
				sci.Location = append(sci.Location, loc)
			}
			add(12) // syntax
			add(2)  // package
			for i, m := range f.MessageType {
				add(4, int32(i))
				for j := range m.Field {
					add(4, int32(i), 2, int32(j))
				}
				for j := range m.OneofDecl {
					add(4, int32(i), 8, int32(j))
				}
				for j := range m.NestedType {
					add(4, int32(i), 3, int32(j))
				}
			}
			for i, e := range f.EnumType {
				add(5, int32(i))
				for j := range e.Value {
					add(5, int32(i), 2, int32(j))
				}
			}
			for i, sv := range f.Service {
				add(6, int32(i))
				for j := range sv.Method {
					add(6, int32(i), 2, int32(j))
				}
			}
			f.SourceCodeInfo = sci
		}
		done = append(done, "carries_source_code_info_with_comments")
	}
	if t.Chance("odd-deprecated", 1, 5) {
		for _, f := range req.ProtoFile {
			if !strings.HasPrefix(f.GetName(), "rnd/") {
				continue
			}
			if t.Chance("odd-dep-file", 1, 3) {
				if f.Options == nil {
					f.Options = &descriptorpb.FileOptions{}
				}
				f.Options.Deprecated = proto.Bool(true)
				f.Options.JavaPackage = proto.String("com.example.rnd")
			}
			for _, m := range f.MessageType {
				if t.Chance("odd-dep-msg", 1, 3) {
					if m.Options == nil {
						m.Options = &descriptorpb.MessageOptions{}
					}
					m.Options.Deprecated = proto.Bool(true)
				}
				for _, fd := range m.Field {
					if t.Chance("odd-dep-field", 1, 4) {
						if fd.Options == nil {
							fd.Options = &descriptorpb.FieldOptions{}
						}
						fd.Options.Deprecated = proto.Bool(true)
					}
				}
			}
			for _, e := range f.EnumType {
				for _, v := range e.Value {
					if t.Chance("odd-dep-enumval", 1, 4) {
						v.Options = &descriptorpb.EnumValueOptions{Deprecated: proto.Bool(true)}
					}
				}
			}
		}
		done = append(done, "has_deprecated_options")
	}
	if t.Chance("odd-compiler-version", 1, 4) {
		req.CompilerVersion = &pluginpb.Version{Major: proto.Int32(int32(3 + t.Draw("odd-cv-major", 30))), Minor: proto.Int32(int32(t.Draw("odd-cv-minor", 30))), Patch: proto.Int32(int32(t.Draw("odd-cv-patch", 10))), Suffix: proto.String([]string{"", "-rc1", "-dev"}[t.Draw("odd-cv-suffix", 3)])}
		done = append(done, "names_a_compiler_version")
	}
	if t.Chance("odd-broken", 1, 12) && len(req.ProtoFile) > 0 {
		switch t.Draw("odd-broken-kind", 3) {
		case 0:
			f := req.ProtoFile[t.Draw("odd-broken-file", len(req.ProtoFile))]
			if f.Options != nil {
				f.Options.GoPackage = nil
			}
			done = append(done, "is_broken_file_without_go_package")
		case 1:
			req.FileToGenerate = append(req.FileToGenerate, "rnd/not/in/proto_file.proto")
			done = append(done, "is_broken_unknown_file_to_generate")
		case 2:
			f := req.ProtoFile[t.Draw("odd-broken-file", len(req.ProtoFile))]
			req.ProtoFile = append(req.ProtoFile, proto.Clone(f).(*descriptorpb.FileDescriptorProto))
			done = append(done, "is_broken_proto_file_listed_twice")
		}
	}
	return done
}

func sortedCopy(s []string) []string {
	o := append([]string{}, s...)
	sort.Strings(o)
	return o
}

func clip(s string, n int) string {
	if len(s) > n {
		return s[:n] + "..."
	}
	return s
}

func firstDiffLines(a, b string) []string {
	la, lb := strings.Split(a, "\n"), strings.Split(b, "\n")
	var out []string
	for i := 0; i < len(la) || i < len(lb); i++ {
		var x, y string
		if i < len(la) {
			x = la[i]
		}
		if i < len(lb) {
			y = lb[i]
		}
		if x != y {
			out = append(out, fmt.Sprintf("line %d:\n- %s\n+ %s", i+1, clip(x, 300), clip(y, 300)))
			if len(out) >= 6 {
				break
			}
		}
	}
	return out
}
