// Engine A (property C05): deterministic encoding is a pure function of the
// message value. One run = one abstract value, several construction
// histories, several encodings per history under tape-chosen map iteration
// orders at every range site; every encoding must equal the first.
package main

import (
	"encoding/hex"
	"fmt"
	"reflect"
	"sort"
	"strings"

	"github.com/cosmos/cosmos-proto/anyutil"
	"github.com/cosmos/cosmos-proto/internal/testprotos/test3"
	"github.com/cosmos/cosmos-proto/internal/verifsim/rndcorpus"
	"github.com/cosmos/cosmos-proto/internal/verifsim/shapes"
	"github.com/cosmos/cosmos-proto/internal/verifsim/simhook"
	"github.com/cosmos/cosmos-proto/internal/verifsim/simrun"
	"github.com/cosmos/cosmos-proto/internal/verifsim/simval"
	"github.com/cosmos/cosmos-proto/testpb"
	"google.golang.org/protobuf/encoding/protowire"
	"google.golang.org/protobuf/proto"
	"google.golang.org/protobuf/reflect/protodesc"
	"google.golang.org/protobuf/reflect/protoreflect"
	"google.golang.org/protobuf/reflect/protoregistry"
	"google.golang.org/protobuf/runtime/protoiface"
	"google.golang.org/protobuf/runtime/protoimpl"
	"google.golang.org/protobuf/types/descriptorpb"
	"google.golang.org/protobuf/types/dynamicpb"
	"google.golang.org/protobuf/types/known/anypb"
)

var corpus = []proto.Message{
	&shapes.Shapes{},
	&testpb.A{},
	&test3.TestAllTypes{},
	&shapes.Extra{},
	&shapes.Nested{},
	&shapes.Leaf{},
	&shapes.CycleNode{},
	&shapes.CycleLink{},
	&shapes.CycleNodeB{},
	&shapes.CycleHop{},
}

var nativeReps = 1

// nFixed is the number of hand-written corpus types at the head of corpus (the
// random corpus types are appended behind them at start-up).
var nFixed = len(corpus)

// pickTypeIndex draws a corpus type: half of the draws go to the hand-written
// types (checked-in ones and the all-shapes schema, which alone hold Any,
// Timestamp, every map kind ...), half to the whole corpus.
// discoverTypes lists every other generated message type of this module that
// is linked into the binary (nested types, helper messages of the checked-in
// packages ...), in name order.
func discoverTypes() []proto.Message {
	have := map[reflect.Type]bool{}
	for _, m := range corpus {
		have[reflect.TypeOf(m)] = true
	}
	var infos []*protoimpl.MessageInfo
	protoregistry.GlobalTypes.RangeMessages(func(mt protoreflect.MessageType) bool {
		mi, ok := mt.(*protoimpl.MessageInfo)
		if !ok || mi.GoReflectType == nil || mi.Desc == nil || have[mi.GoReflectType] {
			return true
		}
		if !strings.HasPrefix(mi.GoReflectType.Elem().PkgPath(), "github.com/cosmos/cosmos-proto/") {
			return true
		}
		infos = append(infos, mi)
		return true
	})
	sort.Slice(infos, func(i, j int) bool { return infos[i].Desc.FullName() < infos[j].Desc.FullName() })
	var out []proto.Message
	for _, mi := range infos {
		if m, ok := reflect.New(mi.GoReflectType.Elem()).Interface().(proto.Message); ok {
			out = append(out, m)
		}
	}
	return out
}

func pickTypeIndex(t *simhook.Tape) int {
	if len(corpus) == nFixed || t.Draw("type-fixed", 2) == 0 {
		return t.Draw("type", nFixed)
	}
	return t.Draw("type-any", len(corpus))
}

func pickType(t *simhook.Tape) proto.Message { return corpus[pickTypeIndex(t)] }

func main() {
	simrun.Main(&simrun.Engine{
		Name:     "A-maporder",
		Property: "C05",
		Init: func(p map[string]string) error {
			corpus = append(corpus, rndcorpus.Messages...)
			corpus = append(corpus, discoverTypes()...)
			if p["native"] == "1" {
				nativeReps = 6
			}
			return nil
		},
		Run:    run,
		Finish: finish,
	})
}

func finish(st *simrun.Stats, extra map[string]interface{}) {
	type siteOut struct {
		Site   string `json:"site"`
		Multi  uint64 `json:"visits_with_2plus_keys"`
		Perms  int    `json:"distinct_permutations_seen"`
	}
	var names []string
	for k := range simhook.SiteTotals {
		names = append(names, k)
	}
	sort.Strings(names)
	var sites []siteOut
	perms := 0
	for _, n := range names {
		s := simhook.SiteTotals[n]
		sites = append(sites, siteOut{n, s.Multi, len(s.Perms)})
		perms += len(s.Perms)
	}
	extra["sites"] = sites
	st.Add("distinct_site_permutation_pairs", int64(perms))
	st.Add("sites_reached_with_2plus_keys", int64(len(names)))
}

type hist struct {
	kind string
	h    *simval.History
}

var histKinds = []string{"morph", "unmarshal-merge-split", "reflect-sorted", "reflect-permuted", "extras-delete", "grow-shrink", "struct", "struct-empty-notnil", "unmarshal-shuffled", "clone", "merge", "overwrite", "reflect-truncate"}

var errExpectedFailure = fmt.Errorf("packing below a parent with a missing required field failed, as it should")

var envelopes = map[string]protoreflect.MessageDescriptor{}

// envelopeFor wraps m into a dynamicpb parent `message Envelope { M payload = 1; }`
// (proto3), or for required=true `message Envelope2 { optional M payload = 1;
// required int32 must = 2; }` (proto2) with `must` left unset.
func envelopeFor(m proto.Message, required bool) (proto.Message, error) {
	md := m.ProtoReflect().Descriptor()
	key := fmt.Sprintf("%s/%v", md.FullName(), required)
	ed := envelopes[key]
	if ed == nil {
		name := "Envelope"
		fdp := &descriptorpb.FileDescriptorProto{
			Name:       proto.String("verifsim/envelope/" + strings.ReplaceAll(key, "/", "_") + ".proto"),
			Package:    proto.String("verifsim.envelope"),
			Syntax:     proto.String("proto3"),
			Dependency: []string{md.ParentFile().Path()},
		}
		msg := &descriptorpb.DescriptorProto{Name: proto.String(name)}
		msg.Field = append(msg.Field, &descriptorpb.FieldDescriptorProto{Name: proto.String("payload"), Number: proto.Int32(1), JsonName: proto.String("payload"),
			Label: descriptorpb.FieldDescriptorProto_LABEL_OPTIONAL.Enum(), Type: descriptorpb.FieldDescriptorProto_TYPE_MESSAGE.Enum(), TypeName: proto.String("." + string(md.FullName()))})
		if required {
			fdp.Syntax = proto.String("proto2")
			msg.Field = append(msg.Field, &descriptorpb.FieldDescriptorProto{Name: proto.String("must"), Number: proto.Int32(2), JsonName: proto.String("must"),
				Label: descriptorpb.FieldDescriptorProto_LABEL_REQUIRED.Enum(), Type: descriptorpb.FieldDescriptorProto_TYPE_INT32.Enum()})
		}
		fdp.MessageType = []*descriptorpb.DescriptorProto{msg}
		fd, err := protodesc.NewFile(fdp, protoregistry.GlobalFiles)
		if err != nil {
			return nil, fmt.Errorf("envelope descriptor: %v", err)
		}
		ed = fd.Messages().Get(0)
		envelopes[key] = ed
	}
	env := dynamicpb.NewMessage(ed)
	env.Set(ed.Fields().Get(0), protoreflect.ValueOfMessage(m.ProtoReflect()))
	return env, nil
}

// stripEnvelope takes the payload bytes out of an encoded envelope holding
// field 1 only.
func stripEnvelope(b []byte) ([]byte, error) {
	num, typ, n := protowire.ConsumeTag(b)
	if n < 0 || num != 1 || typ != protowire.BytesType {
		return nil, fmt.Errorf("envelope: unexpected first record")
	}
	payload, k := protowire.ConsumeBytes(b[n:])
	if k < 0 || n+k != len(b) {
		return nil, fmt.Errorf("envelope: trailing or truncated bytes")
	}
	return append([]byte{}, payload...), nil
}

func marshalVariant(m proto.Message, api int, prefix []byte) (b []byte, err error) {
	defer func() {
		if r := recover(); r != nil {
			err = fmt.Errorf("panic: %v", r)
		}
	}()
	switch api {
	case 0:
		return proto.MarshalOptions{Deterministic: true}.Marshal(m)
	case 1:
		out, err := proto.MarshalOptions{Deterministic: true}.MarshalAppend(prefix, m)
		if err != nil {
			return nil, err
		}
		if len(out) < len(prefix) {
			return nil, fmt.Errorf("MarshalAppend returned fewer bytes than the prefix")
		}
		return out[len(prefix):], nil
	case 3:
		// the module's own Any helper takes marshal options too
		a := &anypb.Any{}
		if err := anyutil.MarshalFrom(a, m, proto.MarshalOptions{Deterministic: true}); err != nil {
			return nil, err
		}
		return a.Value, nil
	case 4:
		// the message as a field of a parent implemented by another library
		// (dynamicpb): protobuf-go encodes the parent and hands the flag down
		env, err := envelopeFor(m, false)
		if err != nil {
			return nil, err
		}
		out, err := proto.MarshalOptions{Deterministic: true}.Marshal(env)
		if err != nil {
			return nil, err
		}
		return stripEnvelope(out)
	case 5:
		// the same below a proto2 parent whose REQUIRED field is missing, packed
		// with the module's Any helper: that fails on the unchanged tree (then
		// this encoding does not count); whatever it returns when it does not
		// fail has to be the deterministic encoding too
		env, err := envelopeFor(m, true)
		if err != nil {
			return nil, err
		}
		a := &anypb.Any{}
		if err := anyutil.MarshalFrom(a, env, proto.MarshalOptions{Deterministic: true}); err != nil {
			return nil, errExpectedFailure
		}
		return stripEnvelope(a.Value)
	default:
		meth := m.ProtoReflect().ProtoMethods()
		if meth == nil || meth.Marshal == nil {
			return proto.MarshalOptions{Deterministic: true}.Marshal(m)
		}
		out, err := meth.Marshal(protoiface.MarshalInput{Message: m.ProtoReflect(), Flags: protoiface.MarshalDeterministic})
		return out.Buf, err
	}
}

func run(c *simrun.Ctx) *simrun.Violation {
	t := c.T
	st := c.Stats
	proto0 := pickType(t)
	mt := proto0.ProtoReflect().Type()
	md := mt.Descriptor()
	cfg := simval.GenCfg{MaxDepth: 1 + t.Draw("maxdepth", 3), MaxFields: 1 + t.Draw("maxfields", 6), MaxMapEntries: 2 + t.Draw("maxentries", 11), MaxListLen: 1 + t.Draw("maxlist", 4), Unknown: t.Chance("unknowns", 1, 4), AnyTargets: anyTargets(), InvalidUTF8: t.Chance("allow-invalid-utf8", 1, 5), Huge: t.Chance("allow-huge", 1, 12), ManyKeys: t.Chance("allow-manykeys", 1, 24)}
	if t.Chance("bigmaps", 1, 16) {
		// maps large enough to cross any small-map threshold (8, 16, 32, 64 entries)
		cfg.MaxMapEntries = 17 + t.Draw("bigmapn", 64)
		cfg.MaxDepth = 1
		if cfg.MaxFields > 3 {
			cfg.MaxFields = 3
		}
		st.Add("values_with_big_map_budget", 1)
	}
	av := simval.Gen(t, md, cfg)
	canon := simval.Canon(av)
	pr := simval.ProbeValue(av)
	st.Add("values", 1)
	if pr.Maps == 0 {
		st.Add("values_without_map", 1)
	}
	nontrivial := false
	for d, ok := range pr.MultiMapDepth {
		if ok {
			st.Add(fmt.Sprintf("probe_multimap_depth%d", d), 1)
			nontrivial = true
		}
	}
	if nontrivial {
		st.Add("values_nontrivial", 1)
	}
	for _, p := range []struct {
		b bool
		n string
	}{{pr.InSingular, "probe_multimap_in_singular_msg"}, {pr.InListElem, "probe_multimap_in_list_elem"}, {pr.InMapValue, "probe_multimap_in_map_value"}, {pr.InOneofMember, "probe_multimap_in_oneof_member"}} {
		if p.b {
			st.Add(p.n, 1)
		}
	}
	var kinds []string
	for k := range pr.KeyKinds {
		kinds = append(kinds, k.String())
	}
	sort.Strings(kinds)
	for _, k := range kinds {
		st.Add("probe_multimap_keykind_"+k, 1)
	}
	st.Max("max_map_len", int64(pr.MaxMapLen))
	c.Tracef("type=%s value=%s", md.FullName(), clip(canon, 600))

	nH := 2 + t.Draw("nhist", 5)
	var golden []byte
	var goldenDesc string
	var base proto.Message
	evaluated := 0
	failures := 0
	var firstFail string
	var trivOrders, multiOrders int
	for hi := 0; hi < nH; hi++ {
		kind := "reflect-sorted" // the first history is the plain one
		if hi > 0 {
			kind = histKinds[t.Draw("hkind", len(histKinds))]
		}
		h := &simval.History{T: t}
		var m proto.Message
		var err error
		var root proto.Message
		var decodeInputs [][]byte // buffers a decode-based history read from
		if t.Chance("interleave-marshal", 1, 5) && (kind == "reflect-permuted" || kind == "extras-delete") {
			// marshal calls interleaved into the construction: the partial
			// message is encoded (result ignored) while it is being built
			h.Between = func() {
				if root != nil {
					marshalVariant(root, 0, nil)
					st.Add("fault_marshal_during_construction", 1)
				}
			}
		}
		switch kind {
		case "reflect-sorted":
			m, err = h.BuildReflect(av, mt)
		case "reflect-permuted":
			h.PermuteInserts = true
			m, err = buildReflectRooted(h, av, mt, &root)
		case "extras-delete":
			h.PermuteInserts = true
			h.Extras = 1 + t.Draw("extras", 6)
			m, err = buildReflectRooted(h, av, mt, &root)
		case "grow-shrink":
			h.PermuteInserts = true
			h.GrowTo = []int{9, 17, 40, 130, 300}[t.Draw("grow", 5)]
			m, err = h.BuildReflect(av, mt)
		case "overwrite":
			h.Overwrite = true
			h.PermuteInserts = true
			m, err = h.BuildReflect(av, mt)
		case "reflect-truncate":
			h.PermuteInserts = true
			h.TruncateLists = true
			m, err = h.BuildReflect(av, mt)
		case "struct":
			h.PermuteInserts = true
			h.SizeHint = []int{0, 1, 64}[t.Draw("hint", 3)]
			h.Extras = t.Draw("extras", 3)
			m, err = h.BuildStruct(av, mt)
		case "struct-empty-notnil":
			h.EmptyNotNil = true
			h.EmptyUnknown = t.Chance("empty-unknown", 1, 2)
			h.EmptyCap = []int{0, 1, 4}[t.Draw("empty-cap", 3)]
			h.PermuteInserts = true
			m, err = h.BuildStruct(av, mt)
		case "unmarshal-shuffled":
			enc := (&simval.EncodeOpts{T: t, Shuffle: true, Redundant: t.Chance("redundant", 1, 3), DupMapKeys: t.Chance("dupkeys", 1, 3), NonCanonical: t.Chance("noncanonical", 1, 3)}).Encode(av)
			mm := mt.New().Interface()
			err = safeUnmarshal(enc, mm)
			decodeInputs = append(decodeInputs, enc)
			m = mm
		case "morph":
			// another value of the same type first, then transformed into this one
			from := simval.Gen(t, md, cfg)
			m, err = h.BuildMorph(from, av, mt)
		case "unmarshal-merge-split":
			// the stream cut in two at a record boundary: decode the first part,
			// merge-decode the second
			recs := simval.SplitRecords((&simval.EncodeOpts{T: t, Shuffle: true}).Encode(av))
			cut := t.Draw("split", len(recs)+1)
			var a, b []byte
			for i, r := range recs {
				if i < cut {
					a = append(a, r...)
				} else {
					b = append(b, r...)
				}
			}
			mm := mt.New().Interface()
			err = safeUnmarshal(a, mm)
			if err == nil {
				err = safeMergeUnmarshal(b, mm)
			}
			decodeInputs = append(decodeInputs, a, b)
			m = mm
		case "clone":
			if base == nil {
				m, err = h.BuildReflect(av, mt)
			} else {
				m, err = safeClone(base)
			}
		case "merge":
			if base == nil {
				m, err = h.BuildReflect(av, mt)
			} else {
				mm := mt.New().Interface()
				err = safeMerge(mm, base)
				m = mm
			}
		}
		st.Add("history_"+kind, 1)
		if err != nil {
			st.Add("history_discarded_build_error", 1)
			st.Add("history_discarded_build_error: "+kind+": "+clip(err.Error(), 90), 1)
			c.Tracef("history %d (%s): discarded: %v", hi, kind, err)
			continue
		}
		got, err := simval.CanonStruct(m)
		if err != nil || got != canon {
			// the construction path did not produce the intended value: that
			// is a matter for other properties, never a C05 alarm
			st.Add("history_discarded_readback_mismatch", 1)
			st.Add("history_discarded_readback_mismatch_"+kind, 1)
			c.Tracef("history %d (%s): discarded: read-back differs (%v) got=%s", hi, kind, err, clip(got, 300))
			continue
		}
		if base == nil {
			base = m
		}
		// the caller re-uses the buffers it decoded from: the message is still
		// the same message and must keep encoding to the same bytes
		for _, buf := range decodeInputs {
			for i := range buf {
				buf[i] ^= 0xff
			}
			st.Add("fault_decode_input_overwritten_before_encoding", 1)
		}
		reps := 2 + t.Draw("reps", 7)
		for r := 0; r < reps; r++ {
			api := t.Draw("api", 12) // 0 Marshal, 1 MarshalAppend, 2 Methods.Marshal, 3 anyutil.MarshalFrom, 4 below a dynamicpb parent, 5 the same with a missing required field
			if api > 5 {
				api %= 3
			}
			var prefix []byte
			if api == 1 {
				prefix = make([]byte, t.Draw("prefixlen", 5), 8+t.Draw("prefixcap", 64))
			}
			mode := 0
			var seed uint64
			if !(hi == 0 && r == 0) {
				mode = t.Draw("ordmode", simhook.OrdModes)
				seed = uint64(t.Draw("ordseed", 1<<30))
			}
			if t.Chance("mutate-revert", 1, 10) {
				if mutateRevert(t, m) {
					st.Add("fault_mutate_and_revert_between_encodings", 1)
				}
			}
			if t.Chance("readonly-calls-between", 1, 8) {
				simhook.Ord = &simhook.OrderCtl{Seed: uint64(t.Draw("ro-ordseed", 1<<30)), Mode: simhook.OrdShuffle}
				readOnlyCalls(m)
				simhook.Ord = nil
				st.Add("fault_read_only_calls_between_encodings", 1)
			}
			if t.Chance("nondet-marshal-between", 1, 6) {
				// an ordinary (non-deterministic) Marshal and a Size between two
				// deterministic encodings, under an order of its own: anything it
				// leaves behind (cached bytes, memoised orders) must not show
				simhook.Ord = &simhook.OrderCtl{Seed: uint64(t.Draw("nondet-ordseed", 1<<30)), Mode: simhook.OrdShuffle}
				func() {
					defer func() { recover() }()
					proto.Marshal(m)
					proto.Size(m)
				}()
				simhook.Ord = nil
				st.Add("fault_nondeterministic_marshal_between_encodings", 1)
			}
			ctl := &simhook.OrderCtl{Seed: seed, Mode: mode}
			simhook.Ord = ctl
			b, err := marshalVariant(m, api, prefix)
			simhook.Ord = nil
			st.Add("encodings", 1)
			st.Add("map_range_visits", int64(ctl.AllVisits))
			st.Add("map_range_visits_2plus_keys", int64(ctl.Visits))
			st.Add("probe_pointer_key_address_fallback", int64(ctl.AddrSorted))
			if ctl.Visits > 0 && mode != 0 {
				st.Add("fault_map_order_permuted_encodings", 1)
				multiOrders++
			} else {
				trivOrders++
			}
			c.Observe(uint64(hi), uint64(r), uint64(api), simhook.HashString(string(b)), ctl.VecHash)
			desc := fmt.Sprintf("history=%d(%s) rep=%d api=%d ordmode=%d ordseed=%d", hi, kind, r, api, mode, seed)
			if err == errExpectedFailure {
				st.Add("probe_packing_below_a_parent_with_missing_required_field_failed", 1)
				continue
			}
			if err != nil {
				failures++
				if firstFail == "" {
					firstFail = desc + ": " + err.Error()
				}
				continue
			}
			evaluated++
			if golden == nil {
				golden = b
				goldenDesc = desc
				if golden == nil {
					golden = []byte{}
				}
				continue
			}
			for k := 1; k < nativeReps && string(b) == string(golden); k++ {
				// native leg: the runtime picks the order; repeat without
				// consuming draws so that both builds follow the same tape
				b2, err2 := marshalVariant(m, api, prefix)
				st.Add("encodings", 1)
				if err2 == nil {
					b = b2
				}
			}
			if string(b) != string(golden) {
				return &simrun.Violation{
					Class: "C05:encodings-differ",
					Detail: map[string]interface{}{
						"type":           string(md.FullName()),
						"value":          clip(canon, 4000),
						"first":          goldenDesc,
						"first_bytes":    hex.EncodeToString(golden),
						"other":          desc,
						"other_bytes":    hex.EncodeToString(b),
						"history_notes":  h.Notes,
						"first_diff_at":  firstDiff(golden, b),
						"multimap_probe": fmt.Sprintf("%+v", *pr),
					},
				}
			}
		}
	}
	if failures > 0 && evaluated > 0 {
		return &simrun.Violation{Class: "C05:marshal-fails-under-some-orders-or-histories",
			Detail: map[string]interface{}{"type": string(md.FullName()), "value": clip(canon, 4000), "failed": firstFail, "succeeded": goldenDesc}}
	}
	if failures > 0 && evaluated == 0 {
		// cannot evaluate C05 on this value at all (whether Marshal may fail
		// is another property's business)
		st.Add("values_unencodable", 1)
		c.Tracef("value unencodable everywhere: %s", firstFail)
	}
	if golden != nil {
		c.Sample = map[string]interface{}{"type": string(md.FullName()), "value": clip(canon, 500), "encoding": clip(hex.EncodeToString(golden), 200),
			"encodings_compared": evaluated, "permuted_order_encodings": multiOrders}
		c.ObserveBytes(golden)
		c.Result = simhook.Mix(simhook.HashString(string(golden)), simhook.HashString(canon))
	}
	return nil
}

func buildReflectRooted(h *simval.History, av protoreflect.Message, mt protoreflect.MessageType, root *proto.Message) (proto.Message, error) {
	// BuildReflect allocates the root itself; to let Between see it we build
	// in two steps.
	dst := mt.New()
	*root = dst.Interface()
	return h.BuildReflectInto(dst, av)
}

func safeUnmarshal(b []byte, m proto.Message) (err error) {
	defer func() {
		if r := recover(); r != nil {
			err = fmt.Errorf("unmarshal panicked: %v", r)
		}
	}()
	return proto.Unmarshal(b, m)
}

func safeMergeUnmarshal(b []byte, m proto.Message) (err error) {
	defer func() {
		if r := recover(); r != nil {
			err = fmt.Errorf("merge-unmarshal panicked: %v", r)
		}
	}()
	return proto.UnmarshalOptions{Merge: true}.Unmarshal(b, m)
}

// readOnlyCalls runs a batch of read-only library and reflection calls; what
// they leave behind (if anything) must not change a later encoding.
func readOnlyCalls(m proto.Message) {
	defer func() { recover() }()
	r := m.ProtoReflect()
	r.Range(func(fd protoreflect.FieldDescriptor, v protoreflect.Value) bool {
		if fd.IsMap() {
			v.Map().Range(func(protoreflect.MapKey, protoreflect.Value) bool { return true })
		}
		return true
	})
	fds := r.Descriptor().Fields()
	for i := 0; i < fds.Len(); i++ {
		r.Has(fds.Get(i))
		r.Get(fds.Get(i))
	}
	c := proto.Clone(m)
	proto.Equal(m, c)
	proto.Equal(c, m)
	_ = fmt.Sprint(m)
}

func safeClone(m proto.Message) (out proto.Message, err error) {
	defer func() {
		if r := recover(); r != nil {
			err = fmt.Errorf("clone panicked: %v", r)
		}
	}()
	return proto.Clone(m), nil
}

func safeMerge(dst, src proto.Message) (err error) {
	defer func() {
		if r := recover(); r != nil {
			err = fmt.Errorf("merge panicked: %v", r)
		}
	}()
	proto.Merge(dst, src)
	return nil
}

// mutateRevert inserts an extra key into some populated map of the message
// through the reflection API and deletes it again.
func mutateRevert(t *simhook.Tape, m proto.Message) (done bool) {
	defer func() {
		if r := recover(); r != nil {
			done = false
		}
	}()
	r := m.ProtoReflect()
	var maps []protoreflect.FieldDescriptor
	fds := r.Descriptor().Fields()
	for i := 0; i < fds.Len(); i++ {
		if fd := fds.Get(i); fd.IsMap() && r.Has(fd) {
			maps = append(maps, fd)
		}
	}
	if len(maps) == 0 {
		return false
	}
	sort.Slice(maps, func(i, j int) bool { return maps[i].Number() < maps[j].Number() })
	fd := maps[t.Draw("mr-field", len(maps))]
	mp := r.Mutable(fd).Map()
	var k protoreflect.MapKey
	switch fd.MapKey().Kind() {
	case protoreflect.BoolKind:
		k = protoreflect.ValueOfBool(true).MapKey()
		if mp.Has(k) {
			k = protoreflect.ValueOfBool(false).MapKey()
		}
	case protoreflect.StringKind:
		k = protoreflect.ValueOfString("\x01mutate-revert").MapKey()
	case protoreflect.Int32Kind, protoreflect.Sint32Kind, protoreflect.Sfixed32Kind:
		k = protoreflect.ValueOfInt32(-777777).MapKey()
	case protoreflect.Int64Kind, protoreflect.Sint64Kind, protoreflect.Sfixed64Kind:
		k = protoreflect.ValueOfInt64(-777777).MapKey()
	case protoreflect.Uint32Kind, protoreflect.Fixed32Kind:
		k = protoreflect.ValueOfUint32(777777).MapKey()
	default:
		k = protoreflect.ValueOfUint64(777777).MapKey()
	}
	if mp.Has(k) {
		return false
	}
	mp.Set(k, mp.NewValue())
	mp.Clear(k)
	return true
}

var anyTargetCache []protoreflect.MessageDescriptor

func anyTargets() []protoreflect.MessageDescriptor {
	if anyTargetCache == nil {
		for _, m := range corpus {
			anyTargetCache = append(anyTargetCache, m.ProtoReflect().Descriptor())
		}
	}
	return anyTargetCache
}

func firstDiff(a, b []byte) int {
	n := len(a)
	if len(b) < n {
		n = len(b)
	}
	for i := 0; i < n; i++ {
		if a[i] != b[i] {
			return i
		}
	}
	return n
}

func clip(s string, n int) string {
	if len(s) > n {
		return s[:n] + fmt.Sprintf("...(+%d)", len(s)-n)
	}
	return s
}
