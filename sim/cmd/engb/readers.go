package main

import (
	"time"
	"fmt"
	"reflect"
	"sort"
	"strings"

	"github.com/cosmos/cosmos-proto/anyutil"
	"github.com/cosmos/cosmos-proto/internal/verifsim/simhook"
	"github.com/cosmos/cosmos-proto/internal/verifsim/simrun"
	"github.com/cosmos/cosmos-proto/internal/verifsim/simval"
	"google.golang.org/protobuf/encoding/protojson"
	"google.golang.org/protobuf/encoding/prototext"
	"google.golang.org/protobuf/proto"
	"google.golang.org/protobuf/reflect/protoreflect"
	"google.golang.org/protobuf/reflect/protoregistry"
	"google.golang.org/protobuf/runtime/protoiface"
	"google.golang.org/protobuf/runtime/protoimpl"
	"google.golang.org/protobuf/types/dynamicpb"
	"google.golang.org/protobuf/types/known/anypb"
	"google.golang.org/protobuf/types/known/durationpb"
	"google.golang.org/protobuf/types/known/timestamppb"
)

// read-only operation kinds
const (
	opSize = iota
	opMarshal
	opMarshalDet
	opMarshalAppend
	opMethodsSize
	opMethodsMarshal
	opCanonReflect // Has/Get on every field, list and map views (Len/Get/Range)
	opRange
	opWhichOneof
	opEqualSame
	opEqualOther
	opClone
	opMerge
	opJSON
	opText
	opString
	opGetters
	opSlowReflect
	opAny
	opMapViews
	opGetAll // Has and Get on every field, populated or not (empty read-only views)
	opSharedMethodsSize    // Size through ONE protoiface.Methods value shared by all tasks
	opSharedMethodsMarshal // Marshal through that same shared Methods value
	opPlumbing             // Type / Descriptor / New / Zero / Interface / IsValid / GetUnknown of the reflection object
	opAnyutil              // anyutil.New / anyutil.MarshalFrom of the message and of a message of another type
	numOps
)

var opNames = []string{"Size", "Marshal", "MarshalDeterministic", "MarshalAppend", "Methods.Size", "Methods.Marshal", "Has/Get/views", "Range", "WhichOneof",
	"Equal(equal peer)", "Equal(unequal peer)", "Clone(from)", "Merge(from)", "protojson.Marshal", "prototext.Marshal", "String", "getters", "MessageOf(struct reflection)", "anypb.New", "map/list view Range/Has/Get", "Has/Get on every field incl. unpopulated", "shared Methods.Size", "shared Methods.Marshal", "Type/Descriptor/New/Zero/Interface/IsValid/GetUnknown", "anyutil.New/MarshalFrom/Unpack"}

// orderFree: the result of these operations is a function of the message
// alone, so the sequential reader they are compared with may meet any map
// iteration order (it is given another one than the task had). Marshal in the
// default mode is the exception: its bytes may follow the iteration order
// (anypb.New and anyutil.New marshal in the default mode).
func orderFree(kind int) bool {
	return kind != opMarshal && kind != opMarshalAppend && kind != opAny && kind != opAnyutil
}

// scribble overwrites bytes an operation handed to its caller. The caller owns
// them: if they were shared with the message, another reader sees the write.
func scribble(b []byte) {
	b = b[:cap(b)]
	for i := range b {
		b[i] ^= 0xA5
	}
}

type opInst struct {
	Kind int
	Ord  uint64
	Mode int
}

type opEnv struct {
	// methods is what ProtoMethods() returned once for the message the
	// operations run on (the shared message for the tasks, the private copy for
	// the sequential reference); callers may keep and re-use that value.
	methods     *protoiface.Methods
	equalPeer   proto.Message
	unequalPeer proto.Message
	mi          *protoimpl.MessageInfo
}

func doOp(m proto.Message, op opInst, env *opEnv) (res string) {
	defer func() {
		if r := recover(); r != nil {
			res = fmt.Sprintf("panic: %v", r)
		}
	}()
	simhook.SetTaskOrd(&simhook.OrderCtl{Seed: op.Ord, Mode: op.Mode, NoSiteStats: true})
	defer simhook.SetTaskOrd(nil)
	switch op.Kind {
	case opSize:
		return fmt.Sprint(proto.Size(m))
	case opMarshal:
		b, err := proto.Marshal(m)
		res = fmt.Sprintf("%x %v", b, err)
		scribble(b)
		return res
	case opMarshalDet:
		b, err := proto.MarshalOptions{Deterministic: true}.Marshal(m)
		res = fmt.Sprintf("%x %v", b, err)
		scribble(b)
		return res
	case opMarshalAppend:
		b, err := proto.MarshalOptions{}.MarshalAppend(make([]byte, 3, 64), m)
		res = fmt.Sprintf("%x %v", b, err)
		scribble(b)
		return res
	case opMethodsSize:
		meth := m.ProtoReflect().ProtoMethods()
		if meth == nil || meth.Size == nil {
			return "no fast path"
		}
		return fmt.Sprint(meth.Size(protoiface.SizeInput{Message: m.ProtoReflect()}).Size)
	case opMethodsMarshal:
		meth := m.ProtoReflect().ProtoMethods()
		if meth == nil || meth.Marshal == nil {
			return "no fast path"
		}
		out, err := meth.Marshal(protoiface.MarshalInput{Message: m.ProtoReflect(), Flags: protoiface.MarshalDeterministic})
		res = fmt.Sprintf("%x %v", out.Buf, err)
		scribble(out.Buf)
		return res
	case opCanonReflect:
		return simval.Canon(m.ProtoReflect())
	case opRange:
		var parts []string
		m.ProtoReflect().Range(func(fd protoreflect.FieldDescriptor, v protoreflect.Value) bool {
			parts = append(parts, fmt.Sprintf("%d", fd.Number()))
			return true
		})
		sort.Strings(parts)
		return strings.Join(parts, ",")
	case opWhichOneof:
		var parts []string
		r := m.ProtoReflect()
		oos := r.Descriptor().Oneofs()
		for i := 0; i < oos.Len(); i++ {
			if fd := r.WhichOneof(oos.Get(i)); fd != nil {
				parts = append(parts, string(fd.Name()))
			} else {
				parts = append(parts, "-")
			}
		}
		return strings.Join(parts, ",")
	case opEqualSame:
		return fmt.Sprint(proto.Equal(m, env.equalPeer), proto.Equal(env.equalPeer, m), proto.Equal(m, m))
	case opEqualOther:
		return fmt.Sprint(proto.Equal(m, env.unequalPeer))
	case opClone:
		c := proto.Clone(m)
		s, err := simval.CanonStruct(c)
		return fmt.Sprintf("%s %v", s, err)
	case opMerge:
		d := m.ProtoReflect().New().Interface()
		proto.Merge(d, m)
		s, err := simval.CanonStruct(d)
		return fmt.Sprintf("%s %v", s, err)
	case opJSON:
		b, err := protojson.Marshal(m)
		return fmt.Sprintf("%s %v", b, err)
	case opText:
		b, err := prototext.Marshal(m)
		return fmt.Sprintf("%s %v", b, err)
	case opString:
		return fmt.Sprint(m)
	case opGetters:
		v := reflect.ValueOf(m)
		var parts []string
		for i := 0; i < v.NumMethod(); i++ {
			name := v.Type().Method(i).Name
			if !strings.HasPrefix(name, "Get") || v.Method(i).Type().NumIn() != 0 || v.Method(i).Type().NumOut() != 1 {
				continue
			}
			out := v.Method(i).Call(nil)[0]
			switch out.Kind() {
			case reflect.Pointer, reflect.Map, reflect.Slice, reflect.Interface:
				if out.Kind() == reflect.Slice && out.Type().Elem().Kind() == reflect.Uint8 {
					parts = append(parts, fmt.Sprintf("%s=%x", name, out.Bytes()))
				} else {
					parts = append(parts, fmt.Sprintf("%s=len/nil:%v", name, lenOrNil(out)))
				}
			default:
				parts = append(parts, fmt.Sprintf("%s=%v", name, out.Interface()))
			}
		}
		return strings.Join(parts, ";")
	case opSlowReflect:
		if env.mi == nil {
			return "no message info"
		}
		return simval.Canon(env.mi.MessageOf(m))
	case opAny:
		a, err := anypb.New(m)
		if err != nil {
			return "err " + err.Error()
		}
		res = fmt.Sprintf("%s %x", a.TypeUrl, a.Value)
		scribble(a.Value)
		return res
	case opAnyutil:
		a, err := anyutil.New(m)
		if err != nil {
			return "err " + err.Error()
		}
		other := &anypb.Any{}
		err2 := anyutil.MarshalFrom(other, &durationpb.Duration{Seconds: 7, Nanos: 9}, proto.MarshalOptions{Deterministic: true})
		b := &anypb.Any{}
		err3 := anyutil.MarshalFrom(b, m, proto.MarshalOptions{Deterministic: true})
		res = fmt.Sprintf("%s %x | %s %x %v | %s %x %v", a.TypeUrl, a.Value, other.TypeUrl, other.Value, err2, b.TypeUrl, b.Value, err3)
		// and back: once through the registered type, once with a type resolver
		// that knows nothing (the file registry and dynamicpb take over)
		u1, uerr1 := anyutil.Unpack(b, nil, nil)
		u2, uerr2 := anyutil.Unpack(b, nil, &protoregistry.Types{})
		if uerr1 == nil && uerr2 == nil {
			res += fmt.Sprintf(" | unpacked %v %v", proto.Equal(u1, m), simval.Canon(u2.ProtoReflect()) == simval.Canon(u1.ProtoReflect()))
		} else {
			res += fmt.Sprintf(" | unpack errors %v / %v", uerr1, uerr2)
		}
		scribble(a.Value)
		scribble(b.Value)
		return res
	case opGetAll:
		return getAll(m.ProtoReflect(), 0)
	case opPlumbing:
		r := m.ProtoReflect()
		mt := r.Type()
		n := mt.New()
		z := mt.Zero()
		return fmt.Sprintf("%s %s %v %v %v %v %d %T %x", mt.Descriptor().FullName(), r.Descriptor().FullName(), r.IsValid(), n.IsValid(), z.IsValid(),
			r.Interface() == m, r.Descriptor().Fields().Len(), n.Interface(), []byte(r.GetUnknown()))
	case opSharedMethodsSize:
		if env.methods == nil || env.methods.Size == nil {
			return "no fast path"
		}
		return fmt.Sprint(env.methods.Size(protoiface.SizeInput{Message: m.ProtoReflect()}).Size)
	case opSharedMethodsMarshal:
		if env.methods == nil || env.methods.Marshal == nil {
			return "no fast path"
		}
		out, err := env.methods.Marshal(protoiface.MarshalInput{Message: m.ProtoReflect(), Flags: protoiface.MarshalDeterministic})
		res = fmt.Sprintf("%x %v", out.Buf, err)
		scribble(out.Buf)
		return res
	case opMapViews:
		var parts []string
		r := m.ProtoReflect()
		fds := r.Descriptor().Fields()
		for i := 0; i < fds.Len(); i++ {
			fd := fds.Get(i)
			switch {
			case fd.IsMap():
				mp := r.Get(fd).Map()
				n := 0
				mp.Range(func(k protoreflect.MapKey, v protoreflect.Value) bool {
					n++
					if !mp.Has(k) || !mp.Get(k).IsValid() {
						parts = append(parts, "range-key-not-found")
					}
					return n < 3 // early exit on purpose
				})
				parts = append(parts, fmt.Sprintf("%d:%d/%d/%v", fd.Number(), mp.Len(), n, mp.IsValid()))
			case fd.IsList():
				l := r.Get(fd).List()
				parts = append(parts, fmt.Sprintf("%d:%d/%v", fd.Number(), l.Len(), l.IsValid()))
			}
		}
		return strings.Join(parts, ";")
	}
	return "?"
}

// getAll calls Has and Get for every field, set or not, and touches the
// read-only empty views Get returns for unpopulated composite fields.
func getAll(r protoreflect.Message, depth int) string {
	var parts []string
	fds := r.Descriptor().Fields()
	for i := 0; i < fds.Len(); i++ {
		fd := fds.Get(i)
		has := r.Has(fd)
		v := r.Get(fd)
		switch {
		case fd.IsMap():
			mp := v.Map()
			n := 0
			mp.Range(func(protoreflect.MapKey, protoreflect.Value) bool { n++; return true })
			parts = append(parts, fmt.Sprintf("%d:%v/%d/%d/%v", fd.Number(), has, mp.Len(), n, mp.IsValid()))
		case fd.IsList():
			l := v.List()
			parts = append(parts, fmt.Sprintf("%d:%v/%d/%v", fd.Number(), has, l.Len(), l.IsValid()))
		case fd.Message() != nil:
			sub := v.Message()
			s := fmt.Sprintf("%d:%v/%v", fd.Number(), has, sub.IsValid())
			if depth < 1 && sub.IsValid() {
				// (reads through a nil message are property C09's business: on the
				// current tree Has on a nil fast-reflection receiver panics)
				s += "(" + getAll(sub, depth+1) + ")"
			}
			parts = append(parts, s)
		default:
			parts = append(parts, fmt.Sprintf("%d:%v/%v", fd.Number(), has, v.Interface()))
		}
	}
	return strings.Join(parts, ";")
}

func lenOrNil(v reflect.Value) string {
	switch v.Kind() {
	case reflect.Pointer, reflect.Interface:
		return fmt.Sprint(v.IsNil())
	default:
		return fmt.Sprintf("%d/%v", v.Len(), v.IsNil())
	}
}

var warmed = map[protoreflect.FullName]bool{}

func warmDescriptor(md protoreflect.MessageDescriptor, depth int, info bool) {
	key := md.FullName()
	if info {
		key += "+info"
	}
	if warmed[key] || depth > 8 {
		return
	}
	warmed[key] = true
	fds := md.Fields()
	for i := 0; i < fds.Len(); i++ {
		fd := fds.Get(i)
		_ = fd.JSONName()
		_ = fd.ContainingOneof()
		_ = fd.Default()
		if fd.Enum() != nil {
			_ = fd.Enum().Values().Len()
		}
		if fd.IsMap() {
			_ = fd.MapKey().Kind()
			if fd.MapValue().Message() != nil {
				warmDescriptor(fd.MapValue().Message(), depth+1, info)
			}
		} else if fd.Message() != nil {
			warmDescriptor(fd.Message(), depth+1, info)
		}
	}
	_ = md.Oneofs().Len()
	if !info {
		return
	}
	// Only when a task will use struct-based reflection (MessageOf): initialise
	// the MessageInfo now, because its initialisation holds a mutex while it
	// calls ProtoReflect() of the nested generated types, and a task parked at
	// a yield point in there would block the others for real. (This also runs
	// the nested types' ProtoReflect once, so such a run is not "cold".)
	if mt, err := protoregistry.GlobalTypes.FindMessageByName(md.FullName()); err == nil {
		if mi, ok := mt.(*protoimpl.MessageInfo); ok {
			mi.MessageOf(mi.Zero().Interface()).Range(func(protoreflect.FieldDescriptor, protoreflect.Value) bool { return true })
		}
	}
}

var wktWarm bool

// warmUp touches only protobuf-go's own lazily initialised, mutex-guarded
// state: descriptor tables, the well-known types and (if a task needs it) the
// struct-reflection MessageInfo.
func warmUp(md protoreflect.MessageDescriptor, info bool) {
	if !wktWarm {
		wktWarm = true
		for _, m := range []proto.Message{&anypb.Any{TypeUrl: "x"}, &timestamppb.Timestamp{Seconds: 1}, &durationpb.Duration{Seconds: 1}} {
			proto.Size(m)
			proto.Marshal(m)
			protojson.Marshal(m)
			prototext.Marshal(m)
			proto.Equal(m, proto.Clone(m))
		}
	}
	warmDescriptor(md, 0, info)
}

var quanta = []int{1, 1, 2, 3, 5, 8, 13, 30, 80, 200, 600, 2000}

type readerTask struct {
	prog    []opInst
	results []string
}

func runReaders(c *simrun.Ctx) *simrun.Violation {
	t := c.T
	st := c.Stats
	proto0 := pickType(t)
	// type information comes from the registry, not from the generated type's
	// own methods: nothing of the generated code may run before the tasks do
	info := infoOf(proto0)
	var mt protoreflect.MessageType = info
	md := info.Desc
	cfg := simval.GenCfg{MaxDepth: 1 + t.Draw("maxdepth", 3), MaxFields: 1 + t.Draw("maxfields", 6), MaxMapEntries: 2 + t.Draw("maxentries", 4), MaxListLen: 1 + t.Draw("maxlist", 4), Unknown: t.Chance("unknowns", 1, 4), AnyTargets: anyTargets(), BigLists: true, InvalidUTF8: t.Chance("allow-invalid-utf8", 1, 4), Huge: t.Chance("allow-huge", 1, 10)}
	av := simval.Gen(t, md, cfg)
	// Now and then a DEEP value: a chain of hundreds to thousands of nested
	// messages along a recursive field path of the type, read by the largest
	// number of tasks. Every task parked half-way down holds its depth, so
	// anything that adds up across goroutines (a process-wide depth counter, a
	// shared stack of scratch buffers) meets sums no single reader produces.
	deepChain := 0
	if path := recursionPath(md); path != nil && t.Chance("deep-chain", 1, 40) {
		// (100: short enough for every operation, Marshal included - a hundred
		// distinct nested messages of different sizes in flight at once)
		deepChain = []int{100, 100, 100, 600, 2000, 3500}[t.Draw("deep-chain-depth", 6)]
		av = buildChain(md, path, deepChain)
		st.Add("fault_deep_chain_of_nested_messages", 1)
	}
	var canon string
	mediumChain := deepChain == 100
	if mediumChain {
		deepChain = 0 // treated like any other value from here on
	}
	if deepChain > 0 {
		// (the canonical text of a chain is quadratic in its depth: described instead)
		canon = fmt.Sprintf("chain of %d rounds of %d nested message(s) of %s", deepChain, len(recursionPath(md)), md.FullName())
	} else {
		canon = simval.Canon(av)
	}
	useStruct := t.Chance("build-struct", 1, 2)
	useMorph := !useStruct && deepChain == 0 && t.Chance("build-morph", 1, 2)
	var morphFrom protoreflect.Message
	if useMorph {
		morphFrom = simval.Gen(t, md, cfg)
	}
	emptyNotNil := t.Chance("empty-notnil", 1, 3)
	emptyCap := []int{0, 1, 4}[t.Draw("empty-cap", 3)]
	truncate := t.Chance("truncate-lists", 1, 3)
	emptyUnknown := t.Chance("empty-unknown", 1, 4)
	// choices of the truncation history are drawn once and replayed for every
	// copy, so that shared message, private copy and equal peer are built the
	// same way (same nil-versus-empty and capacity choices) and every read
	// result is comparable
	var histDraws []int
	build := func() proto.Message {
		ht := t
		if histDraws != nil {
			ht = simhook.NewReplayTape(histDraws)
		}
		start := len(t.Rec)
		h := &simval.History{T: ht, EmptyUnknown: emptyUnknown}
		var m proto.Message
		var err error
		if useStruct {
			h.EmptyNotNil = emptyNotNil
			h.EmptyCap = emptyCap
			m, err = h.BuildStruct(av, mt)
		} else if useMorph {
			m, err = h.BuildMorph(morphFrom, av, mt)
		} else {
			h.TruncateLists = truncate
			m, err = h.BuildReflect(av, mt)
		}
		if histDraws == nil {
			histDraws = append([]int{}, t.Values()[start:]...)
			if histDraws == nil {
				histDraws = []int{}
			}
		}
		if err != nil {
			return nil
		}
		if deepChain > 0 {
			return m
		}
		if got, err := simval.CanonStructDesc(m, md); err != nil || got != canon {
			return nil
		}
		return m
	}
	shared, private, equalPeer := build(), build(), build()
	av2 := simval.Gen(t, md, cfg)
	var unequalPeer proto.Message
	if useStruct {
		unequalPeer, _ = (&simval.History{T: t}).BuildStruct(av2, mt)
	} else {
		unequalPeer, _ = (&simval.History{T: t}).BuildReflect(av2, mt)
	}
	if shared == nil || private == nil || equalPeer == nil || unequalPeer == nil {
		st.Add("runs_discarded_build_mismatch", 1)
		return nil
	}
	if emptyUnknown {
		st.Add("fault_empty_non_nil_unknown_fields", 1)
	}
	if useMorph {
		st.Add("fault_message_morphed_from_another_value", 1)
	}
	if useStruct && emptyNotNil && emptyCap > 0 || !useStruct && truncate {
		st.Add("fault_empty_lists_with_spare_capacity", 1)
	}
	odd := false
	if t.Chance("odd-shape", 1, 6) {
		// an odd-but-constructible state, the same in every copy: a nil message
		// map value (what a key-only map entry on the wire leaves behind on the
		// current tree), a typed-nil oneof wrapper, a oneof wrapper with a nil
		// message. Reads may panic on it (property C09's business); they must do
		// so identically for the sequential reader and must not write.
		kind := t.Draw("odd-kind", 4)
		if simval.OddShape(kind, t.Draw("odd-sel", 1<<16), shared, private, equalPeer) {
			odd = true
			st.Add([]string{"fault_nil_message_map_value", "fault_typed_nil_oneof_wrapper", "fault_oneof_wrapper_with_nil_message", "fault_nil_element_in_repeated_message_field"}[kind], 1)
		}
	}
	if md.Fields().Len() == 0 {
		st.Add("probe_top_level_message_type_without_fields", 1)
		if len(shared.ProtoReflect().GetUnknown()) > 0 {
			st.Add("probe_field_less_message_holding_unknown_fields", 1)
		}
	}
	env := &opEnv{equalPeer: equalPeer, unequalPeer: unequalPeer}
	if rt, err := protoregistry.GlobalTypes.FindMessageByName(md.FullName()); err == nil {
		env.mi, _ = rt.(*protoimpl.MessageInfo)
	}
	envSeq := *env // the sequential reference uses a Methods value of its own (fetched after the concurrent phase)
	nTasks := 2 + t.Draw("ntasks", 5)
	// a large value (a list of hundreds of elements, or just a lot of data):
	// fewer tasks and operations keep a run within a second or two
	big := len(canon) > 4000 || strings.Count(canon, "{},") > 100
	if big && nTasks > 2 {
		nTasks = 2
	}
	if mediumChain {
		big = true // a hundred levels: two or three tasks, two operations each
		if nTasks > 3 {
			nTasks = 3
		}
	}
	if deepChain > 0 {
		nTasks = 6
	}
	tasks := make([]*readerTask, nTasks)
	ordBase := uint64(t.Draw("ordbase", 1<<30))
	warmOpsAllowed := t.Chance("warm-ops", 1, 3)
	for i := range tasks {
		n := 1 + t.Draw("nops", 6)
		if big && n > 2 {
			n = 2
		}
		rt := &readerTask{}
		for j := 0; j < n; j++ {
			kind := t.Draw("op", numOps)
			if deepChain > 0 {
				// operations whose cost is linear in the depth (Marshal is
				// quadratic on this code base: every level sizes its subtree)
				kind = []int{opSize, opMethodsSize, opSize, opEqualSame, opSize, opWhichOneof}[t.Draw("deep-op", 6)]
			}
			if !warmOpsAllowed && (kind == opSlowReflect || kind == opSharedMethodsSize || kind == opSharedMethodsMarshal) {
				kind = opSize // these need state set up before the tasks start; most runs stay cold
			}
			rt.prog = append(rt.prog, opInst{Kind: kind, Ord: simhook.Mix(ordBase, uint64(i), uint64(j)), Mode: t.Draw("ordmode", simhook.OrdModes)})
		}
		rt.results = make([]string, n)
		tasks[i] = rt
	}
	// Narrow warm-up of protobuf-go's own lazily initialised, mutex-guarded
	// state (descriptor tables, the struct-reflection MessageInfo, well-known
	// types), so that no task can be parked at a yield point while it holds one
	// of protobuf-go's initialisation locks. Nothing of the generated code's
	// read paths is run here: their first use happens inside the concurrent
	// phase, and the sequential reference is computed afterwards.
	needMethods, needInfo := false, false
	for _, rt := range tasks {
		for _, op := range rt.prog {
			switch op.Kind {
			case opSharedMethodsSize, opSharedMethodsMarshal:
				needMethods = true
			case opSlowReflect:
				needInfo = true
			}
		}
	}
	if needMethods {
		env.methods = shared.ProtoReflect().ProtoMethods()
	}
	warmUp(md, needInfo)
	// a run is "cold" when nothing of the generated code has run on these
	// messages (or, for nested types, at all in this process) before the tasks:
	// built as struct literals, no unknown fields to install, no Methods value
	// fetched, no MessageInfo initialised
	if useStruct && !needMethods && !needInfo && !emptyUnknown && !strings.Contains(canon, "u:") && !strings.Contains(simval.Canon(av2), "u:") {
		st.Add("runs_cold_no_generated_code_before_the_tasks", 1)
	}
	newRaceReports() // drain anything written before the concurrent phase
	c.Tracef("type=%s tasks=%d value=%s", md.FullName(), nTasks, clip(canon, 500))

	snap0 := simval.TakeSnapshot(shared)
	hash0 := simval.StructHash(shared)
	snapEvery := 1 + len(snap0.Entries)/2000
	if deepChain > 0 {
		snapEvery = 64 // (the snapshot covers the top 40 levels; taking it is not free)
	} else if mediumChain {
		snapEvery = 24
	}
	sched := simhook.NewSched()
	sched.MaxSteps = 400 + t.Draw("maxsteps", 800)
	for i := range tasks {
		rt := tasks[i]
		sched.Add(func(_ *simhook.Task) {
			for j, op := range rt.prog {
				rt.results[j] = doOp(shared, op, env)
			}
		})
	}
	sched.Choose = func(runnable []int, last []int) (int, int) {
		return runnable[t.Draw("task", len(runnable))], quanta[t.Draw("quantum", len(quanta))]
	}
	if deepChain > 0 {
		// a chain is thousands of levels of dozens of yield points each: long
		// quanta and a larger step budget, so that every task gets far down
		// while the others are parked half-way
		sched.MaxSteps = 4000
		deepQuanta := []int{300, 2000, 8000, 30000, 100000}
		sched.Choose = func(runnable []int, last []int) (int, int) {
			return runnable[t.Draw("task", len(runnable))], deepQuanta[t.Draw("deep-quantum", len(deepQuanta))]
		}
	}
	var snapViol *simrun.Violation
	var snapNanos int64
	var schedule []string
	sched.AfterStep = func(step, task, site int) bool {
		if len(schedule) < 300 {
			schedule = append(schedule, fmt.Sprintf("t%d@%s", task, simhook.SiteName(site)))
		}
		if snapEvery > 1 && step%snapEvery != 0 {
			return true // large message: the struct is re-read every few steps only
		}
		t0 := time.Now()
		same := simval.StructHash(shared) == hash0
		snapNanos += time.Since(t0).Nanoseconds()
		if same {
			return true
		}
		s := simval.TakeSnapshot(shared)
		if s.Hash != snap0.Hash {
			snapViol = &simrun.Violation{Class: "C11:shared-message-struct-changed-during-reads", Detail: map[string]interface{}{
				"type": string(md.FullName()), "value": clip(canon, 3000), "step": step, "running_task": task, "yield_site": simhook.SiteName(site), "diff": snap0.Diff(s)}}
			return false
		}
		return true
	}
	tRun := time.Now()
	sched.Run()
	st.Add("time_ms_concurrent_phase", time.Since(tRun).Milliseconds())
	st.Add("time_ms_of_it_in_struct_snapshots", snapNanos/1e6)
	if sched.Abandoned {
		// a task was blocked on a lock held by a parked task (the code under
		// test takes a mutex around a yield point): the schedule was given up
		// and the run decides nothing
		st.Add("runs_abandoned_lock_held_across_a_yield_point", 1)
		newRaceReports()
		return nil
	}
	st.Add("simulations", 1)
	st.Add("scheduler_steps", int64(sched.Steps))
	st.Add("fault_context_switches", int64(sched.Switches))
	st.Add("probe_task_blocked_in_a_real_lock_and_holder_released_it", int64(sched.Blocked))
	st.Add("yield_points_passed", int64(sched.Yields))
	st.Max("max_steps_in_a_run", int64(sched.Steps))
	if sched.Switches >= 4 {
		st.Add("runs_with_4plus_preemptions", 1)
	}
	c.Observe(sched.SeqHash, uint64(sched.Steps))
	c.Trace = append(c.Trace, "schedule: "+strings.Join(schedule, " "))
	c.Result = sched.SeqHash
	races := newRaceReports()
	// sequential reader on a private copy with the same order draws
	if needMethods {
		envSeq.methods = private.ProtoReflect().ProtoMethods()
	}
	expected := make([][]string, nTasks)
	for i, rt := range tasks {
		expected[i] = make([]string, len(rt.prog))
		for j, op := range rt.prog {
			// (on an odd shape a read may panic or stop at the first difference
			// it meets, so what it returns can follow the order; only the Size
			// family, which visits everything, stays comparable across orders)
			if orderFree(op.Kind) && (!odd || op.Kind == opSize || op.Kind == opMethodsSize || op.Kind == opSharedMethodsSize) {
				// any sequential reader will do: this one meets another map
				// iteration order than the task did
				op.Ord = simhook.Mix(op.Ord, 0x5e9)
				op.Mode = (op.Mode + 1 + int(op.Ord%uint64(simhook.OrdModes-1))) % simhook.OrdModes
			}
			expected[i][j] = doOp(private, op, &envSeq)
			st.Add("op_"+opNames[op.Kind], 1)
		}
	}
	if strings.Contains(races, "DATA RACE") {
		return &simrun.Violation{Class: "C11:data-race", Detail: map[string]interface{}{
			"type": string(md.FullName()), "value": clip(canon, 3000), "race_report": clip(races, 6000), "programs": describePrograms(tasks)}}
	}
	if snapViol != nil {
		snapViol.Detail["programs"] = describePrograms(tasks)
		return snapViol
	}
	for i, tk := range sched.Tasks() {
		if tk.Panic != nil {
			return &simrun.Violation{Class: "C11:reader-panicked", Detail: map[string]interface{}{"task": i, "panic": fmt.Sprint(tk.Panic)}}
		}
	}
	for i, rt := range tasks {
		for j := range rt.prog {
			c.Observe(simhook.HashString(rt.results[j]))
			if rt.results[j] != expected[i][j] {
				return &simrun.Violation{Class: "C11:result-differs-from-sequential-reader", Detail: map[string]interface{}{
					"type": string(md.FullName()), "value": clip(canon, 3000), "task": i, "op_index": j, "op": opNames[rt.prog[j].Kind],
					"sequential": clip(expected[i][j], 1500), "concurrent": clip(rt.results[j], 1500), "programs": describePrograms(tasks)}}
			}
		}
	}
	if final := simval.TakeSnapshot(shared); final.Hash != snap0.Hash {
		return &simrun.Violation{Class: "C11:shared-message-struct-changed-during-reads", Detail: map[string]interface{}{
			"type": string(md.FullName()), "value": clip(canon, 3000), "step": "end", "diff": snap0.Diff(final), "programs": describePrograms(tasks)}}
	}
	c.Sample = map[string]interface{}{"type": string(md.FullName()), "value": clip(canon, 400), "programs": describePrograms(tasks), "steps": sched.Steps, "context_switches": sched.Switches,
		"schedule_prefix": clip(strings.Join(schedule, " "), 600)}
	return nil
}

// recursionPath finds a shortest cycle of singular message fields that leads
// from md back to md (nil if the type is not recursive that way).
func recursionPath(md protoreflect.MessageDescriptor) []protoreflect.FieldDescriptor {
	type node struct {
		md   protoreflect.MessageDescriptor
		path []protoreflect.FieldDescriptor
	}
	queue := []node{{md, nil}}
	seen := map[protoreflect.FullName]bool{}
	for len(queue) > 0 {
		n := queue[0]
		queue = queue[1:]
		if len(n.path) >= 3 {
			continue
		}
		fds := n.md.Fields()
		for i := 0; i < fds.Len(); i++ {
			fd := fds.Get(i)
			if fd.Message() == nil || fd.IsMap() || fd.IsList() {
				continue
			}
			p := append(append([]protoreflect.FieldDescriptor{}, n.path...), fd)
			if fd.Message().FullName() == md.FullName() {
				return p
			}
			if !seen[fd.Message().FullName()] {
				seen[fd.Message().FullName()] = true
				queue = append(queue, node{fd.Message(), p})
			}
		}
	}
	return nil
}

// buildChain nests depth rounds of the path, innermost first.
func buildChain(md protoreflect.MessageDescriptor, path []protoreflect.FieldDescriptor, depth int) *dynamicpb.Message {
	inner := dynamicpb.NewMessage(md)
	for d := 0; d < depth; d++ {
		cur := inner
		for i := len(path) - 1; i >= 0; i-- {
			outer := dynamicpb.NewMessage(path[i].ContainingMessage())
			outer.Set(path[i], protoreflect.ValueOfMessage(cur))
			cur = outer
		}
		inner = cur
	}
	return inner
}

func describePrograms(tasks []*readerTask) []string {
	var out []string
	for i, rt := range tasks {
		var ops []string
		for _, op := range rt.prog {
			ops = append(ops, fmt.Sprintf("%s(ord=%d)", opNames[op.Kind], op.Mode))
		}
		out = append(out, fmt.Sprintf("task %d: %s", i, strings.Join(ops, " -> ")))
	}
	return out
}
