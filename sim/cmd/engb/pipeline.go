package main

// Pipeline scenario (property C07): who owns a piece of memory after a codec
// call has returned. Producers encode messages and re-use them; a transport
// with a small pool of recycled receive buffers carries the frames
// (duplicated, reordered); consumers decode straight out of the pool buffer
// and hand the message to handlers, which keep reading it while the buffer is
// scribbled over and filled with the next frame. All of it runs as tasks under
// the deterministic scheduler; the plan (values, APIs, duplication, reorder,
// routing, handler programs) is drawn from the tape before the tasks start,
// the interleaving while they run.
//
// Harness state shared between tasks lives in fixed arrays that are touched
// only from go:norace functions; legitimate ownership transfers of buffers and
// messages are made visible to the race detector with atomics, so that the
// only unordered accesses left are the ones an aliasing defect creates.

import (
	"fmt"
	"reflect"
	"strings"
	"sync/atomic"

	"github.com/cosmos/cosmos-proto/internal/verifsim/simhook"
	"github.com/cosmos/cosmos-proto/internal/verifsim/simrun"
	"github.com/cosmos/cosmos-proto/internal/verifsim/simval"
	"google.golang.org/protobuf/encoding/protojson"
	"google.golang.org/protobuf/proto"
	"google.golang.org/protobuf/reflect/protoreflect"
	"google.golang.org/protobuf/runtime/protoiface"
)

const (
	maxSlots    = 6
	maxFrames   = 48
	slotSize    = 1 << 17
	maxHandlers = 4
	maxCons     = 3
)

const (
	waitFreeSlot = 1 + iota
	waitInbox
	waitMail
	waitDirty
)

type framePlan struct {
	id         int
	typ        int
	foreign    bool
	av         protoreflect.Message
	wire       []byte // foreign frames: pre-encoded
	api        int    // 0 Marshal 1 MarshalAppend 2 methods 3 deterministic
	prefixLen  int
	prefixCap  int
	consumer   int
	bcast      int // second consumer decoding the same buffer, or -1
	handler    int // -1: consumer digests it itself
	handler2   int // second handler reading the same message, or -1
	dup        bool
	insertPos  int           // reorder: position among pending frames of the consumer's inbox
	reuse      int           // 0 none, 1 flip bytes in place, 2 reset+refill, 3 both
	discard    bool          // consumers decode with DiscardUnknown
	mergeTwice bool          // consumers decode the frame and then merge-decode it again onto the result
	prebuilt   proto.Message // pulsar producer: message built at plan time with a tape-drawn history
	roOps      []int         // read-only calls the producer makes on its message before Marshal
	staleSel   int           // >0: the producer clears a populated map/list field and then reads through views obtained before
	malformed  bool          // foreign frame cut short or carrying an invalid / unusual record
	accumulate bool          // the consumer merge-decodes this frame into its accumulator for the type (earlier frames' buffers are long recycled by then)
}

type sentFrame struct {
	plan    *framePlan
	slot    int
	n       int
	sum     uint64
	control []byte // private copy of the frame bytes, read after the run only
}

type mailItem struct {
	msg   proto.Message
	frame int // index into sent
	cons  int
}

type digestRec struct {
	sent   int
	cons   int
	where  string
	digest string
	chain  []int // accumulator digests: the sent frames merged so far, in order
}

type world struct {
	nSlots    int
	slots     [maxSlots][]byte
	slotState [maxSlots]int32 // 0 free 1 filled 2 dirty (released, not yet scribbled)
	slotReads [maxSlots]int32 // readers still to come
	slotSync  [maxSlots]uint32

	sent  [2 * maxFrames]sentFrame
	nSent int

	inbox     [maxCons][2 * maxFrames]int
	inboxN    [maxCons]int
	inboxHead [maxCons]int
	toConsume [maxCons]int

	mail     [maxHandlers][4 * maxFrames]mailItem
	mailN    [maxHandlers]int
	mailHead [maxHandlers]int
	mailSync [maxHandlers]uint32
	toHandle [maxHandlers]int

	framesLeft int32 // frames not yet fully consumed (recycler stops at 0)
	poisoned   int
	recycled   int
}

//go:norace
func (w *world) ready(kind, arg int) bool {
	switch kind {
	case waitFreeSlot:
		for i := 0; i < w.nSlots; i++ {
			if w.slotState[i] == 0 {
				return true
			}
		}
		return false
	case waitInbox:
		return w.inboxHead[arg] < w.inboxN[arg] || w.toConsume[arg] <= 0
	case waitMail:
		return w.mailHead[arg] < w.mailN[arg] || w.toHandle[arg] <= 0
	case waitDirty:
		if w.framesLeft == 0 {
			return true
		}
		for i := 0; i < w.nSlots; i++ {
			if w.slotState[i] == 2 {
				return true
			}
		}
		return false
	}
	return true
}

//go:norace
func (w *world) takeFreeSlot() int {
	for i := 0; i < w.nSlots; i++ {
		if w.slotState[i] == 0 {
			w.slotState[i] = 1
			return i
		}
	}
	return -1
}

//go:norace
func (w *world) takeDirtySlot() int {
	for i := 0; i < w.nSlots; i++ {
		if w.slotState[i] == 2 {
			return i
		}
	}
	return -1
}

//go:norace
func (w *world) slotBuf(i, n int) []byte { return w.slots[i][:n:n] }

//go:norace
func (w *world) markFree(i int) { w.slotState[i] = 0; w.poisoned++ }

//go:norace
func (w *world) framesRemaining() int32 { return w.framesLeft }

// enqueue registers a sent frame and puts it into the consumers' inboxes at
// the planned position among the frames still pending there.
//
//go:norace
func (w *world) enqueue(p *framePlan, slot, n int, sum uint64, control []byte) int {
	id := w.nSent
	w.sent[id] = sentFrame{plan: p, slot: slot, n: n, sum: sum, control: control}
	w.nSent++
	readers := int32(1)
	w.insertInbox(p.consumer, id, p.insertPos)
	if p.bcast >= 0 {
		readers = 2
		w.insertInbox(p.bcast, id, p.insertPos)
	}
	w.slotReads[slot] = readers
	return id
}

//go:norace
func (w *world) insertInbox(c, id, pos int) {
	pending := w.inboxN[c] - w.inboxHead[c]
	if pos > pending {
		pos = pending
	}
	at := w.inboxN[c] - pos
	for j := w.inboxN[c]; j > at; j-- {
		w.inbox[c][j] = w.inbox[c][j-1]
	}
	w.inbox[c][at] = id
	w.inboxN[c]++
}

//go:norace
func (w *world) takeInbox(c int) (int, *sentFrame) {
	if w.inboxHead[c] >= w.inboxN[c] {
		return -1, nil
	}
	id := w.inbox[c][w.inboxHead[c]]
	w.inboxHead[c]++
	w.toConsume[c]--
	return id, &w.sent[id]
}

// cancel is called by a producer that cannot send a planned frame.
//
//go:norace
func (w *world) cancel(p *framePlan) {
	copies := 1
	if p.dup {
		copies = 2
	}
	w.framesLeft -= int32(copies)
	for _, cons := range []int{p.consumer, p.bcast} {
		if cons < 0 {
			continue
		}
		w.toConsume[cons] -= copies
		for _, h := range []int{p.handler, p.handler2} {
			if h >= 0 {
				w.toHandle[h] -= copies
			}
		}
	}
}

// releaseSlot is called by a consumer when its decode has returned.
//
//go:norace
func (w *world) releaseSlot(slot int) {
	w.slotReads[slot]--
	if w.slotReads[slot] == 0 {
		w.slotState[slot] = 2
		w.framesLeft--
	}
}

//go:norace
func (w *world) postMail(h int, it mailItem) {
	w.mail[h][w.mailN[h]] = it
	w.mailN[h]++
}

//go:norace
func (w *world) takeMail(h int) (mailItem, bool) {
	if w.mailHead[h] >= w.mailN[h] {
		return mailItem{}, false
	}
	it := w.mail[h][w.mailHead[h]]
	w.mailHead[h]++
	w.toHandle[h]--
	return it, true
}

func checksum(b []byte) uint64 {
	h := uint64(1469598103934665603)
	for _, x := range b {
		h ^= uint64(x)
		h *= 1099511628211
	}
	return h ^ uint64(len(b))<<40
}

// flipBytesInPlace inverts every byte of every []byte reachable in the message
// struct (the producer re-using its own message after Marshal returned).
func flipBytesInPlace(v reflect.Value, depth int) int {
	if depth > 30 {
		return 0
	}
	n := 0
	switch v.Kind() {
	case reflect.Pointer, reflect.Interface:
		if !v.IsNil() {
			n += flipBytesInPlace(v.Elem(), depth+1)
		}
	case reflect.Struct:
		for i := 0; i < v.NumField(); i++ {
			sf := v.Type().Field(i)
			if sf.Name == "state" || sf.Name == "sizeCache" || sf.PkgPath != "" && sf.Name != "unknownFields" {
				continue
			}
			n += flipBytesInPlace(v.Field(i), depth+1)
		}
	case reflect.Slice:
		if v.Type().Elem().Kind() == reflect.Uint8 {
			b := v.Bytes()
			for i := range b {
				b[i] ^= 0xff
			}
			return len(b)
		}
		for i := 0; i < v.Len(); i++ {
			n += flipBytesInPlace(v.Index(i), depth+1)
		}
	case reflect.Map:
		it := v.MapRange()
		for it.Next() {
			n += flipBytesInPlace(it.Value(), depth+1)
		}
	}
	return n
}

type taskLog struct {
	digests []digestRec
	errs    []string
	notes   []string
}

func (l *taskLog) errf(format string, a ...interface{}) {
	l.errs = append(l.errs, fmt.Sprintf(format, a...))
}

type handlerAction struct {
	kind int // 0 digest, 1.. read-only op
}

const numHandlerOps = 9

func handlerOp(m proto.Message, kind int) {
	switch kind {
	case 1:
		proto.Size(m)
	case 2:
		proto.Marshal(m)
	case 3:
		proto.MarshalOptions{Deterministic: true}.Marshal(m)
	case 4:
		proto.Equal(m, m)
	case 5:
		simval.Canon(m.ProtoReflect()) // Has/Get/Range/list and map views
	case 6:
		protojson.Marshal(m)
	case 7:
		m.ProtoReflect().Range(func(fd protoreflect.FieldDescriptor, v protoreflect.Value) bool { return true })
	case 8:
		getAll(m.ProtoReflect(), 0) // Has/Get on every field, also unpopulated ones
	}
}

// decodeFrame is what a consumer does with a received buffer, and what the
// control decode does with the private copy of the same bytes. AllowPartial
// skips protobuf-go's post-decode initialisation walk, which on the current
// tree panics on the nil message value a key-only map entry leaves behind (a
// matter for other properties); a decoder panic is recorded as an error on
// both sides alike.
func decodeFrame(buf []byte, msg proto.Message, p *framePlan) (err error) {
	defer func() {
		if r := recover(); r != nil {
			err = fmt.Errorf("decoder panicked: %v", r)
		}
	}()
	err = proto.UnmarshalOptions{DiscardUnknown: p.discard, AllowPartial: true}.Unmarshal(buf, msg)
	if err == nil && p.mergeTwice {
		// the same frame merged onto its own decode: every map key exists already
		err = proto.UnmarshalOptions{DiscardUnknown: p.discard, AllowPartial: true, Merge: true}.Unmarshal(buf, msg)
	}
	return err
}

// staleViewReads: the owner of a message takes the list and map views of its
// fields, clears one populated field (a legitimate mutation by the owner) and
// then reads through the views it obtained before. Those reads must not write.
func staleViewReads(m proto.Message, sel int) (diff string) {
	defer func() {
		if r := recover(); r != nil {
			diff = "" // a panicking read is another property's business
		}
	}()
	r := m.ProtoReflect()
	type view struct {
		fd protoreflect.FieldDescriptor
		l  protoreflect.List
		mp protoreflect.Map
	}
	var views []view
	var populated []protoreflect.FieldDescriptor
	fds := r.Descriptor().Fields()
	for i := 0; i < fds.Len(); i++ {
		fd := fds.Get(i)
		switch {
		case fd.IsMap():
			views = append(views, view{fd: fd, mp: r.Get(fd).Map()})
		case fd.IsList():
			views = append(views, view{fd: fd, l: r.Get(fd).List()})
		default:
			continue
		}
		if r.Has(fd) {
			populated = append(populated, fd)
		}
	}
	if len(populated) == 0 {
		return ""
	}
	r.Clear(populated[sel%len(populated)])
	before := simval.TakeSnapshot(m)
	for _, v := range views {
		if v.mp != nil {
			v.mp.Len()
			v.mp.IsValid()
			v.mp.Range(func(k protoreflect.MapKey, _ protoreflect.Value) bool { v.mp.Has(k); v.mp.Get(k); return true })
		} else {
			n := v.l.Len()
			v.l.IsValid()
			if n > 0 {
				v.l.Get(0)
			}
		}
	}
	after := simval.TakeSnapshot(m)
	if before.Hash != after.Hash {
		return fmt.Sprint(before.Diff(after))
	}
	return ""
}

// safeMerge merge-decodes a frame into an existing message.
func safeMerge(buf []byte, msg proto.Message, p *framePlan) (err error) {
	defer func() {
		if r := recover(); r != nil {
			err = fmt.Errorf("decoder panicked: %v", r)
		}
	}()
	return proto.UnmarshalOptions{DiscardUnknown: p.discard, AllowPartial: true, Merge: true}.Unmarshal(buf, msg)
}

// safeHandlerOp: a read-only call that panics on an odd message shape (for
// instance a nil message map value left by a key-only map entry) is another
// property's business; here it only must not write.
func safeHandlerOp(m proto.Message, kind int) {
	defer func() { recover() }()
	handlerOp(m, kind)
}

func runPipeline(c *simrun.Ctx) *simrun.Violation {
	t := c.T
	st := c.Stats
	w := &world{}
	w.nSlots = 2 + t.Draw("slots", maxSlots-1)
	for i := 0; i < w.nSlots; i++ {
		w.slots[i] = make([]byte, slotSize)
	}
	nProd := 1 + t.Draw("producers", 3)
	nCons := 1 + t.Draw("consumers", maxCons)
	nHand := 1 + t.Draw("handlers", maxHandlers)
	cfg := simval.GenCfg{MaxDepth: 1 + t.Draw("maxdepth", 2), MaxFields: 2 + t.Draw("maxfields", 6), MaxMapEntries: 2 + t.Draw("maxentries", 4), MaxListLen: 1 + t.Draw("maxlist", 3), Unknown: true, AnyTargets: anyTargets(), InvalidUTF8: t.Chance("allow-invalid-utf8", 1, 4), Huge: t.Chance("allow-huge", 1, 10), ManyKeys: t.Chance("allow-manykeys", 1, 12)}

	// ---- plan (all draws happen here, before any task runs)
	plans := make([][]*framePlan, nProd)
	nFrames := 0
	for p := 0; p < nProd; p++ {
		n := 1 + t.Draw("frames", 4)
		for k := 0; k < n && nFrames < maxFrames/2; k++ {
			fp := &framePlan{id: nFrames, typ: pickTypeIndex(t), bcast: -1, handler: -1, handler2: -1}
			md := corpus[fp.typ].ProtoReflect().Descriptor()
			fp.av = simval.Gen(t, md, cfg)
			fp.foreign = t.Chance("foreign", 1, 3)
			if fp.foreign {
				fp.wire = (&simval.EncodeOpts{T: t, Shuffle: true, Unknowns: true, Redundant: t.Chance("redundant", 1, 2), NonCanonical: t.Chance("noncanonical", 1, 2), DupMapKeys: t.Chance("dupkeys", 1, 2), KeyOnlyEntries: t.Chance("keyonly", 1, 3)}).Encode(fp.av)
				if t.Chance("malformed", 1, 6) {
					// a malformed or unusual frame: the decoder fails part-way (or
					// has to skip groups); it must still leave the input alone and
					// hold no view of it, and the control decode of a private copy
					// of the same bytes must end the same way
					fp.wire, fp.malformed = simval.Malform(t, fp.wire), true
				}
			} else {
				// the producer's message is built here, with a tape-drawn history
				// (struct literal with empty non-nil containers and spare capacity,
				// or reflection with over-filled and truncated lists)
				h := &simval.History{T: t, EmptyUnknown: t.Chance("empty-unknown", 1, 3)}
				var err error
				if t.Chance("build-struct", 1, 2) {
					h.EmptyNotNil = t.Chance("empty-notnil", 1, 2)
					h.EmptyCap = []int{0, 1, 4}[t.Draw("empty-cap", 3)]
					fp.prebuilt, err = h.BuildStruct(fp.av, corpus[fp.typ].ProtoReflect().Type())
				} else if t.Chance("build-morph", 1, 2) {
					from := simval.Gen(t, md, cfg)
					fp.prebuilt, err = h.BuildMorph(from, fp.av, corpus[fp.typ].ProtoReflect().Type())
				} else {
					h.TruncateLists = t.Chance("truncate-lists", 1, 2)
					fp.prebuilt, err = h.BuildReflect(fp.av, corpus[fp.typ].ProtoReflect().Type())
				}
				if err != nil {
					fp.prebuilt = nil
				} else if t.Chance("odd-shape", 1, 6) {
					if kind := t.Draw("odd-kind", 4); simval.OddShape(kind, t.Draw("odd-sel", 1<<16), fp.prebuilt) {
						st.Add([]string{"fault_nil_message_map_value", "fault_typed_nil_oneof_wrapper", "fault_oneof_wrapper_with_nil_message", "fault_nil_element_in_repeated_message_field"}[kind], 1)
					}
				}
				for k, n := 0, t.Draw("roops", 4); k < n; k++ {
					fp.roOps = append(fp.roOps, 1+t.Draw("roop", numHandlerOps-1))
				}
				if t.Chance("stale-views", 1, 4) {
					fp.staleSel = 1 + t.Draw("stale-sel", 8)
				}
			}
			fp.mergeTwice = t.Chance("merge-twice", 1, 5)
			fp.accumulate = t.Chance("accumulate", 1, 4)
			fp.api = t.Draw("api", 4)
			fp.prefixLen = t.Draw("prefixlen", 6)
			fp.prefixCap = fp.prefixLen + []int{0, 1, 16, 4096}[t.Draw("prefixcap", 4)]
			fp.consumer = t.Draw("consumer", nCons)
			if nCons > 1 && t.Chance("broadcast", 1, 4) {
				fp.bcast = (fp.consumer + 1 + t.Draw("bcast", nCons-1)) % nCons
			}
			if t.Chance("to-handler", 3, 4) {
				fp.handler = t.Draw("handler", nHand)
				if nHand > 1 && t.Chance("two-handlers", 1, 4) {
					fp.handler2 = (fp.handler + 1 + t.Draw("handler2", nHand-1)) % nHand
				}
			}
			fp.dup = t.Chance("dup", 1, 5)
			fp.insertPos = t.Draw("reorder", 4)
			fp.reuse = t.Draw("reuse", 4)
			fp.discard = t.Chance("discard-unknown", 1, 5)
			plans[p] = append(plans[p], fp)
			nFrames++
		}
	}
	// expected consumption counts
	total := 0
	for _, pl := range plans {
		for _, fp := range pl {
			copies := 1
			if fp.dup {
				copies = 2
			}
			total += copies
			for _, cons := range []int{fp.consumer, fp.bcast} {
				if cons < 0 {
					continue
				}
				w.toConsume[cons] += copies
				for _, h := range []int{fp.handler, fp.handler2} {
					if h >= 0 {
						w.toHandle[h] += copies
					}
				}
			}
		}
	}
	w.framesLeft = int32(total)
	handlerProg := make([][]handlerAction, nHand)
	for h := range handlerProg {
		n := 2 + t.Draw("hactions", 6)
		for k := 0; k < n; k++ {
			handlerProg[h] = append(handlerProg[h], handlerAction{kind: t.Draw("haction", numHandlerOps)})
		}
	}
	c.Tracef("pipeline: %d producers, %d consumers, %d handlers, %d buffers, %d frames (%d deliveries)", nProd, nCons, nHand, w.nSlots, nFrames, total)

	sched := simhook.NewSched()
	sched.MaxSteps = 600 + t.Draw("maxsteps", 1200)
	sched.Ready = w.ready
	sched.ExitOnStall = true // tasks share the (unsynchronised) transport state: they cannot be left to run freely
	// map iteration order inside every task is decided by the tape as well
	ordSeed := uint64(t.Draw("ordseed", 1<<30))
	ordMode := t.Draw("ordmode", simhook.OrdModes)
	taskNo := 0
	taskOrd := func() *simhook.OrderCtl {
		taskNo++
		return &simhook.OrderCtl{Seed: simhook.Mix(ordSeed, uint64(taskNo)), Mode: ordMode, NoSiteStats: true}
	}
	logs := []*taskLog{}
	newLog := func() *taskLog { l := &taskLog{}; logs = append(logs, l); return l }

	// ---- producers
	for p := 0; p < nProd; p++ {
		pl := plans[p]
		lg := newLog()
		ord := taskOrd()
		sched.Add(func(_ *simhook.Task) {
			simhook.SetTaskOrd(ord)
			dead := simhook.NewReplayTape(nil)
			var m proto.Message
			reuseObj := false
			// every encoding this producer obtained stays its own: none may change
			// when later encodings are made or the message is re-used
			type kept struct {
				frame []byte
				sum   uint64
				id    int
			}
			var earlier []kept
			defer func() {
				for _, k := range earlier {
					if checksum(k.frame) != k.sum {
						lg.errf("C07:earlier-marshal-output-changed-by-a-later-call|frame %d of this producer no longer holds the bytes Marshal returned", k.id)
						break
					}
				}
			}()
			for _, fp := range pl {
				var frame []byte
				if fp.foreign {
					frame = fp.wire
				} else {
					mt := corpus[fp.typ].ProtoReflect().Type()
					if reuseObj && m != nil && m.ProtoReflect().Descriptor() == mt.Descriptor() {
						// re-use the same object for the next value
						proto.Reset(m)
						if _, err := (&simval.History{T: dead}).BuildReflectInto(m.ProtoReflect(), fp.av); err != nil {
							lg.notes = append(lg.notes, "build failed: "+err.Error())
							w.cancel(fp)
							continue
						}
					} else if fp.prebuilt != nil {
						m = fp.prebuilt
					} else {
						lg.notes = append(lg.notes, "prebuild failed")
						w.cancel(fp)
						continue
					}
					reuseObj = fp.reuse >= 2
					// read-only calls before encoding must leave the struct alone
					for _, op := range fp.roOps {
						if fp.staleSel > 0 {
							if d := staleViewReads(m, fp.staleSel); d != "" {
								lg.errf("C07:read-only-call-changed-the-message-struct|reads through map/list views obtained before the owner cleared the field, frame %d (type %s): %s", fp.id, mt.Descriptor().FullName(), d)
							}
							simhook.Yield(-2)
						}
						before := simval.TakeSnapshot(m)
						safeHandlerOp(m, op)
						after := simval.TakeSnapshot(m)
						if before.Hash != after.Hash {
							lg.errf("C07:read-only-call-changed-the-message-struct|producer-side op %d on frame %d (type %s): %v", op, fp.id, mt.Descriptor().FullName(), before.Diff(after))
						}
						simhook.Yield(-2)
					}
					before := simval.TakeSnapshot(m)
					var err error
					prefix := make([]byte, fp.prefixLen, fp.prefixCap)
					for i := range prefix {
						prefix[i] = 0xA5
					}
					func() {
						defer func() {
							if r := recover(); r != nil {
								err = fmt.Errorf("marshal panicked (an odd message shape; another property's business): %v", r)
							}
						}()
						switch fp.api {
						case 0:
							frame, err = proto.Marshal(m)
						case 1:
							var out []byte
							out, err = proto.MarshalOptions{}.MarshalAppend(prefix, m)
							if err == nil {
								if len(out) < len(prefix) {
									lg.errf("C07:marshalappend-disturbed-the-callers-prefix|frame %d: result shorter than the prefix", fp.id)
									out = append(prefix[:0:0], prefix...)
								}
								frame = out[len(prefix):]
								for i := range prefix {
									if out[i] != 0xA5 || prefix[i] != 0xA5 {
										lg.errf("C07:marshalappend-disturbed-the-callers-prefix|frame %d (type %s): byte %d of the %d-byte prefix (cap %d) changed", fp.id, mt.Descriptor().FullName(), i, fp.prefixLen, fp.prefixCap)
										break
									}
								}
							}
						case 2:
							var out protoiface.MarshalOutput
							out, err = m.ProtoReflect().ProtoMethods().Marshal(protoiface.MarshalInput{Message: m.ProtoReflect()})
							frame = out.Buf
						case 3:
							frame, err = proto.MarshalOptions{Deterministic: true}.Marshal(m)
						}
					}()
					if err != nil {
						lg.notes = append(lg.notes, "marshal failed: "+err.Error())
						w.cancel(fp)
						continue
					}
					if after := simval.TakeSnapshot(m); before.Hash != after.Hash {
						lg.errf("C07:read-only-call-changed-the-message-struct|Marshal (api %d) of frame %d (type %s): %v", fp.api, fp.id, mt.Descriptor().FullName(), before.Diff(after))
					}
					if where := simval.SharesMemory(m, frame); where != "" {
						lg.errf("C07:marshal-output-shares-memory-with-the-message|Marshal (api %d) of frame %d (type %s): %s", fp.api, fp.id, mt.Descriptor().FullName(), where)
					}
				}
				if len(frame) > slotSize {
					lg.notes = append(lg.notes, "frame too large, skipped")
					w.cancel(fp)
					continue
				}
				copies := 1
				if fp.dup {
					copies = 2
				}
				frameSum := checksum(frame)
				if !fp.foreign {
					earlier = append(earlier, kept{frame, frameSum, fp.id})
				}
				for k := 0; k < copies; k++ {
					simhook.WaitOn(waitFreeSlot, 0)
					slot := w.takeFreeSlot()
					atomic.LoadUint32(&w.slotSync[slot]) // acquire: whoever recycled the buffer
					buf := w.slotBuf(slot, len(frame))
					copy(buf, frame)
					control := append([]byte{}, frame...)
					atomic.AddUint32(&w.slotSync[slot], 1) // release: buffer handed to the consumers
					w.enqueue(fp, slot, len(frame), frameSum, control)
					simhook.Yield(-2)
				}
				if !fp.foreign {
					// the producer re-uses its message while the frame is in flight
					if fp.reuse&1 == 1 {
						flipBytesInPlace(reflect.ValueOf(m), 0)
					}
					if fp.reuse >= 2 {
						proto.Reset(m)
					}
					simhook.Yield(-2)
					if checksum(frame) != frameSum {
						lg.errf("C07:marshal-output-changed-when-message-was-reused|frame %d type %s api %d reuse %d", fp.id, corpus[fp.typ].ProtoReflect().Descriptor().FullName(), fp.api, fp.reuse)
					}
				}
			}
		})
	}
	// ---- consumers
	for ci := 0; ci < nCons; ci++ {
		ci := ci
		lg := newLog()
		ord := taskOrd()
		sched.Add(func(_ *simhook.Task) {
			simhook.SetTaskOrd(ord)
			// per message type: a long-lived message this consumer keeps merging frames into
			type accum struct {
				msg   proto.Message
				chain []int
			}
			accs := map[int]*accum{}
			for {
				simhook.WaitOn(waitInbox, ci)
				id, sf := w.takeInbox(ci)
				if sf == nil {
					return // nothing more will arrive
				}
				atomic.LoadUint32(&w.slotSync[sf.slot]) // acquire: the sender filled the buffer
				buf := w.slotBuf(sf.slot, sf.n)
				msg := corpus[sf.plan.typ].ProtoReflect().Type().New().Interface()
				err := decodeFrame(buf, msg, sf.plan)
				if where := simval.SharesMemory(msg, w.slots[sf.slot]); where != "" {
					// (checked against the whole pool buffer: a view that starts
					// behind the frame, or has spare capacity there, counts)
					lg.errf("C07:decoded-message-shares-memory-with-the-input|frame %d type %s: %s", sf.plan.id, msg.ProtoReflect().Descriptor().FullName(), where)
				}
				simhook.Yield(-2)
				if checksum(buf) != sf.sum {
					lg.errf("C07:unmarshal-modified-its-input|frame %d type %s", sf.plan.id, msg.ProtoReflect().Descriptor().FullName())
				}
				atomic.AddUint32(&w.slotSync[sf.slot], 1) // release: done with the buffer
				w.releaseSlot(sf.slot)
				if err != nil {
					lg.digests = append(lg.digests, digestRec{id, ci, "consumer", "unmarshal-error: " + err.Error(), nil})
					msg = nil
				} else {
					d, derr := simval.CanonStruct(msg)
					if derr != nil {
						d = "walk-error: " + derr.Error()
					}
					lg.digests = append(lg.digests, digestRec{id, ci, "consumer, right after Unmarshal", d, nil})
				}
				if sf.plan.accumulate && err == nil {
					// merge the same frame into the accumulator too (from the private
					// control copy of its bytes: the pool buffer is already released)
					a := accs[sf.plan.typ]
					if a == nil {
						a = &accum{msg: corpus[sf.plan.typ].ProtoReflect().Type().New().Interface()}
						accs[sf.plan.typ] = a
					}
					in := append([]byte{}, sf.control...)
					merr := safeMerge(in, a.msg, sf.plan)
					for i := range in {
						in[i] = 0xEE // the consumer re-uses its scratch copy at once
					}
					if merr == nil {
						a.chain = append(a.chain, id)
						d, derr := simval.CanonStruct(a.msg)
						if derr != nil {
							d = "walk-error: " + derr.Error()
						}
						lg.digests = append(lg.digests, digestRec{id, ci, fmt.Sprintf("consumer %d accumulator after %d merges", ci, len(a.chain)), d, append([]int{}, a.chain...)})
					} else {
						delete(accs, sf.plan.typ) // a failed merge leaves the accumulator in an unspecified state
					}
				}
				for _, h := range []int{sf.plan.handler, sf.plan.handler2} {
					if h < 0 {
						continue
					}
					w.postMail(h, mailItem{msg: msg, frame: id, cons: ci})
					atomic.AddUint32(&w.mailSync[h], 1) // release: message handed to the handler
				}
				simhook.Yield(-2)
			}
		})
	}
	// ---- handlers
	for hi := 0; hi < nHand; hi++ {
		hi := hi
		lg := newLog()
		prog := handlerProg[hi]
		ord := taskOrd()
		sched.Add(func(_ *simhook.Task) {
			simhook.SetTaskOrd(ord)
			type held struct {
				it mailItem
			}
			var holding []held
			for {
				simhook.WaitOn(waitMail, hi)
				it, ok := w.takeMail(hi)
				if !ok {
					break // nothing more will arrive
				}
				atomic.LoadUint32(&w.mailSync[hi]) // acquire: the consumer finished decoding
				if it.msg == nil {
					continue
				}
				holding = append(holding, held{it})
				// act on every message still held (older ones have seen their
				// buffer recycled in the meantime)
				for _, hd := range holding {
					for ai, a := range prog {
						if a.kind == 0 {
							d, derr := simval.CanonStruct(hd.it.msg)
							if derr != nil {
								d = "walk-error: " + derr.Error()
							}
							lg.digests = append(lg.digests, digestRec{hd.it.frame, hd.it.cons, fmt.Sprintf("handler %d action %d", hi, ai), d, nil})
						} else {
							before := simval.TakeSnapshot(hd.it.msg)
							safeHandlerOp(hd.it.msg, a.kind)
							after := simval.TakeSnapshot(hd.it.msg)
							if before.Hash != after.Hash {
								lg.errf("C07:read-only-call-changed-the-message-struct|op %d on frame %d: %v", a.kind, hd.it.frame, before.Diff(after))
							}
						}
						simhook.Yield(-2)
					}
				}
				if len(holding) > 3 {
					holding = holding[1:]
				}
			}
			// final look at everything still held
			for _, hd := range holding {
				d, derr := simval.CanonStruct(hd.it.msg)
				if derr != nil {
					d = "walk-error: " + derr.Error()
				}
				lg.digests = append(lg.digests, digestRec{hd.it.frame, hd.it.cons, fmt.Sprintf("handler %d at end of run", hi), d, nil})
			}
		})
	}
	// ---- recycler: scribbles over released buffers before they are re-used
	sched.Add(func(_ *simhook.Task) {
		for {
			simhook.WaitOn(waitDirty, 0)
			slot := w.takeDirtySlot()
			if slot < 0 {
				if w.framesRemaining() == 0 {
					return
				}
				continue
			}
			atomic.LoadUint32(&w.slotSync[slot]) // acquire: every consumer released it
			buf := w.slots[slot]
			for i := range buf[:4096] {
				buf[i] = 0xDB
			}
			atomic.AddUint32(&w.slotSync[slot], 1) // release: free for the next sender
			w.markFree(slot)
			simhook.Yield(-2)
		}
	})

	sched.Choose = func(runnable []int, last []int) (int, int) {
		return runnable[t.Draw("task", len(runnable))], quanta[t.Draw("quantum", len(quanta))]
	}
	var schedule []string
	sched.AfterStep = func(step, task, site int) bool {
		if len(schedule) < 200 {
			schedule = append(schedule, fmt.Sprintf("t%d@%s", task, simhook.SiteName(site)))
		}
		return true
	}
	newRaceReports()
	sched.Run()
	if sched.Abandoned {
		st.Add("runs_abandoned_lock_held_across_a_yield_point", 1)
		newRaceReports()
		return nil
	}
	st.Add("simulations", 1)
	st.Add("scheduler_steps", int64(sched.Steps))
	st.Add("fault_context_switches", int64(sched.Switches))
	st.Add("probe_task_blocked_in_a_real_lock_and_holder_released_it", int64(sched.Blocked))
	st.Max("max_steps_in_a_run", int64(sched.Steps))
	if sched.Switches >= 4 {
		st.Add("runs_with_4plus_preemptions", 1)
	}
	c.Observe(sched.SeqHash, uint64(sched.Steps))
	c.Result = sched.SeqHash
	c.Trace = append(c.Trace, "schedule: "+strings.Join(schedule, " "))
	for i, tk := range sched.Tasks() {
		if tk.Panic != nil && !strings.Contains(fmt.Sprint(tk.Panic), "simhook: deadlock") {
			c.EngineError = fmt.Sprintf("pipeline task %d panicked (harness bug or a decoder/encoder panic, which is another property's matter): %v\nplan: %s", i, tk.Panic, strings.Join(describePlan(plans), "\n"))
			return nil
		}
	}
	if sched.Deadlocked {
		c.EngineError = "pipeline deadlocked (harness bug): " + clip(strings.Join(schedule, " "), 600)
		return nil
	}
	// ---- oracles over the recorded history
	races := newRaceReports()
	if strings.Contains(races, "DATA RACE") {
		return &simrun.Violation{Class: "C07:data-race-between-buffer-owner-and-message-reader", Detail: map[string]interface{}{"race_report": clip(races, 6000), "plan": describePlan(plans)}}
	}
	for _, lg := range logs {
		for _, e := range lg.errs {
			parts := strings.SplitN(e, "|", 2)
			return &simrun.Violation{Class: parts[0], Detail: map[string]interface{}{"what": parts[1], "plan": describePlan(plans)}}
		}
	}
	// conservation: every look at a held message equals the control decode of
	// the very same frame bytes (copied privately at send time)
	control := map[int]string{}
	for i := 0; i < w.nSent; i++ {
		sf := &w.sent[i]
		if checksum(sf.control) != sf.sum {
			c.EngineError = "control copy changed (harness bug)"
			return nil
		}
		cm := corpus[sf.plan.typ].ProtoReflect().Type().New().Interface()
		err := decodeFrame(sf.control, cm, sf.plan)
		if err != nil {
			control[i] = "unmarshal-error: " + err.Error()
			if sf.plan.malformed {
				st.Add("fault_malformed_or_truncated_frame", 1)
				st.Add("probe_decoder_failed_part_way", 1)
			}
			continue
		}
		d, derr := simval.CanonStruct(cm)
		if derr != nil {
			d = "walk-error: " + derr.Error()
		}
		control[i] = d
		st.Add("frames_delivered", 1)
		if sf.plan.foreign {
			st.Add("frames_foreign_with_unknown_and_shuffled_records", 1)
		}
		if sf.plan.malformed {
			st.Add("fault_malformed_or_truncated_frame", 1)
			st.Add("probe_malformed_frame_decoded_without_error", 1)
		}
	}
	looks := 0
	for _, lg := range logs {
		for _, d := range lg.digests {
			looks++
			if d.chain != nil {
				// control: the same frames merged in the same order, from private copies
				cm := corpus[w.sent[d.chain[0]].plan.typ].ProtoReflect().Type().New().Interface()
				want := ""
				for _, id := range d.chain {
					sf := &w.sent[id]
					if err := safeMerge(append([]byte{}, sf.control...), cm, sf.plan); err != nil {
						want = "unmarshal-error: " + err.Error()
						break
					}
				}
				if want == "" {
					var derr error
					if want, derr = simval.CanonStruct(cm); derr != nil {
						want = "walk-error: " + derr.Error()
					}
				}
				st.Add("accumulator_looks", 1)
				if d.digest != want {
					sf := &w.sent[d.sent]
					return &simrun.Violation{Class: "C07:held-message-differs-from-control-decode", Detail: map[string]interface{}{
						"type": string(corpus[sf.plan.typ].ProtoReflect().Descriptor().FullName()), "where": d.where, "chain_of_sent_frames": d.chain,
						"held": clip(d.digest, 2000), "control": clip(want, 2000), "plan": describePlan(plans)}}
				}
				continue
			}
			if d.digest != control[d.sent] {
				sf := &w.sent[d.sent]
				return &simrun.Violation{Class: "C07:held-message-differs-from-control-decode", Detail: map[string]interface{}{
					"type": string(corpus[sf.plan.typ].ProtoReflect().Descriptor().FullName()), "frame": sf.plan.id, "where": d.where, "consumer": d.cons,
					"held": clip(d.digest, 2000), "control": clip(control[d.sent], 2000), "frame_hex": clip(fmt.Sprintf("%x", sf.control), 1200), "plan": describePlan(plans)}}
			}
		}
	}
	st.Add("looks_at_held_messages", int64(looks))
	st.Add("fault_buffer_scribbled_after_release", int64(w.poisoned))
	for _, pl := range plans {
		for _, fp := range pl {
			if fp.dup {
				st.Add("fault_frame_duplicated", 1)
			}
			if fp.insertPos > 0 {
				st.Add("fault_frame_reorder_requested", 1)
			}
			if fp.bcast >= 0 {
				st.Add("fault_same_buffer_decoded_by_two_consumers", 1)
			}
			if fp.mergeTwice {
				st.Add("fault_frame_merge_decoded_onto_itself", 1)
			}
			if fp.handler2 >= 0 {
				st.Add("fault_message_shared_by_two_handlers", 1)
			}
			if !fp.foreign && fp.reuse > 0 {
				st.Add("fault_producer_reused_message_after_marshal", 1)
			}
		}
	}
	if w.poisoned > 0 && looks > 0 {
		st.Add("probe_runs_with_recycle_and_later_look", 1)
	}
	c.Sample = map[string]interface{}{"plan": describePlan(plans), "steps": sched.Steps, "context_switches": sched.Switches, "looks_at_held_messages": looks, "buffers_scribbled": w.poisoned,
		"schedule_prefix": clip(strings.Join(schedule, " "), 500)}
	return nil
}

func describePlan(plans [][]*framePlan) []string {
	var out []string
	for p, pl := range plans {
		for _, fp := range pl {
			out = append(out, fmt.Sprintf("producer %d frame %d: type=%s foreign=%v api=%d prefix=%d/%d -> consumer %d (broadcast %d) handlers %d,%d dup=%v reorder=%d reuse=%d value=%s",
				p, fp.id, corpus[fp.typ].ProtoReflect().Descriptor().FullName(), fp.foreign, fp.api, fp.prefixLen, fp.prefixCap, fp.consumer, fp.bcast, fp.handler, fp.handler2, fp.dup, fp.insertPos, fp.reuse, clip(simval.Canon(fp.av), 300)))
		}
	}
	return out
}
