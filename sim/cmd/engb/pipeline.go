package main

import "github.com/cosmos/cosmos-proto/internal/verifsim/simrun"

func runPipeline(c *simrun.Ctx) *simrun.Violation {
	c.EngineError = "pipeline scenario not built yet"
	return nil
}
