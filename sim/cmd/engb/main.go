// Engine B (properties C11 and C07): real goroutines under a deterministic
// scheduler the race detector cannot see (see simhook.Sched). Built with -race.
package main

import (
	"sort"
	"fmt"
	"os"
	"reflect"
	"strings"

	"github.com/cosmos/cosmos-proto/internal/testprotos/test3"
	"github.com/cosmos/cosmos-proto/internal/verifsim/rndcorpus"
	"github.com/cosmos/cosmos-proto/internal/verifsim/shapes"
	"github.com/cosmos/cosmos-proto/internal/verifsim/simhook"
	"github.com/cosmos/cosmos-proto/internal/verifsim/simrun"
	"github.com/cosmos/cosmos-proto/testpb"
	"google.golang.org/protobuf/proto"
	"google.golang.org/protobuf/reflect/protoreflect"
	"google.golang.org/protobuf/reflect/protoregistry"
	"google.golang.org/protobuf/runtime/protoimpl"
)

var corpus = []proto.Message{
	&shapes.Shapes{},
	&testpb.A{},
	&test3.TestAllTypes{},
	&shapes.Extra{},
	&shapes.Nested{},
	&test3.MultiLayeredNesting{},
	&shapes.Leaf{},
}

var (
	raceLogPath string
	raceLogOff  int64
)

// newRaceReports returns the race-detector output written since the last call.
func newRaceReports() string {
	if raceLogPath == "" {
		return ""
	}
	f, err := os.Open(raceLogPath)
	if err != nil {
		return ""
	}
	defer f.Close()
	st, err := f.Stat()
	if err != nil || st.Size() <= raceLogOff {
		return ""
	}
	buf := make([]byte, st.Size()-raceLogOff)
	n, _ := f.ReadAt(buf, raceLogOff)
	raceLogOff += int64(n)
	return string(buf[:n])
}

// nFixed is the number of hand-written corpus types at the head of corpus (the
// random corpus types are appended behind them at start-up).
var nFixed = len(corpus)

// pickTypeIndex draws a corpus type: half of the draws go to the hand-written
// types (checked-in ones and the all-shapes schema, which alone hold Any,
// Timestamp, every map kind ...), half to the whole corpus.
func pickTypeIndex(t *simhook.Tape) int {
	switch d := t.Draw("type-fixed", 4); {
	case d == 3 && len(wktTypes) > 0:
		// a quarter of the draws: types embedding well-known types (Any,
		// Timestamp, Duration), which the properties name explicitly
		return wktTypes[t.Draw("type-wkt", len(wktTypes))]
	case len(corpus) == nFixed || d == 0 || d == 3:
		return t.Draw("type", nFixed)
	}
	return t.Draw("type-any", len(corpus))
}

// wktTypes: corpus indices of types with a field (directly, or one message
// below) of a google.protobuf type.
var wktTypes []int

func embedsWKT(md protoreflect.MessageDescriptor, depth int) bool {
	fds := md.Fields()
	for i := 0; i < fds.Len(); i++ {
		fd := fds.Get(i)
		sub := fd.Message()
		if fd.IsMap() {
			sub = fd.MapValue().Message()
		}
		if sub == nil {
			continue
		}
		if strings.HasPrefix(string(sub.FullName()), "google.protobuf.") {
			return true
		}
		if depth > 0 && sub.FullName() != md.FullName() && embedsWKT(sub, depth-1) {
			return true
		}
	}
	return false
}

func pickType(t *simhook.Tape) proto.Message { return corpus[pickTypeIndex(t)] }

func main() {
	e := &simrun.Engine{Name: "B-tasks"}
	e.Init = func(p map[string]string) error {
		corpus = append(corpus, rndcorpus.Messages...)
		corpus = append(corpus, discoverTypes()...)
		for i, m := range corpus {
			if embedsWKT(infoOf(m).Desc, 1) {
				wktTypes = append(wktTypes, i)
			}
		}
		if gr := os.Getenv("GORACE"); strings.Contains(gr, "log_path=") {
			for _, kv := range strings.Fields(gr) {
				if strings.HasPrefix(kv, "log_path=") {
					raceLogPath = fmt.Sprintf("%s.%d", strings.TrimPrefix(kv, "log_path="), os.Getpid())
				}
			}
		}
		switch p["scenario"] {
		case "readers":
			e.Property = "C11"
			e.Run = runReaders
		case "pipeline":
			e.Property = "C07"
			e.Run = runPipeline
		case "detmarshal":
			e.Property = "C05"
			e.Run = runDetMarshal
		default:
			return fmt.Errorf("param scenario=readers|pipeline|detmarshal required")
		}
		return nil
	}
	e.Finish = func(st *simrun.Stats, extra map[string]interface{}) {
		if raceLogPath != "" {
			os.Remove(raceLogPath)
		}
	}
	simrun.Main(e)
}

var anyTargetCache []protoreflect.MessageDescriptor

// anyTargets lists the corpus types an Any field may pack.
func anyTargets() []protoreflect.MessageDescriptor {
	if anyTargetCache == nil {
		for _, m := range corpus {
			anyTargetCache = append(anyTargetCache, infoOf(m).Desc)
		}
	}
	return anyTargetCache
}

var infoByType map[reflect.Type]*protoimpl.MessageInfo

// infoOf finds the MessageInfo that the generated package registered for the
// Go type of m, without calling any method of the generated type (so that
// state the generated code initialises lazily on first use stays untouched).
// discoverTypes lists every other generated message type of this module that
// is linked into the binary (nested types, field-less types, the small helper
// messages of the checked-in packages ...), in name order. The instances are
// made with reflect.New: no generated code runs for them here.
func discoverTypes() []proto.Message {
	have := map[reflect.Type]bool{}
	for _, m := range corpus {
		have[reflect.TypeOf(m)] = true
	}
	var infos []*protoimpl.MessageInfo
	protoregistry.GlobalTypes.RangeMessages(func(mt protoreflect.MessageType) bool {
		mi, ok := mt.(*protoimpl.MessageInfo)
		if !ok || mi.GoReflectType == nil || mi.Desc == nil || have[mi.GoReflectType] {
			return true
		}
		if !strings.HasPrefix(mi.GoReflectType.Elem().PkgPath(), "github.com/cosmos/cosmos-proto/") {
			return true
		}
		infos = append(infos, mi)
		return true
	})
	sort.Slice(infos, func(i, j int) bool { return infos[i].Desc.FullName() < infos[j].Desc.FullName() })
	var out []proto.Message
	for _, mi := range infos {
		if m, ok := reflect.New(mi.GoReflectType.Elem()).Interface().(proto.Message); ok {
			out = append(out, m)
		}
	}
	return out
}

func infoOf(m proto.Message) *protoimpl.MessageInfo {
	if infoByType == nil {
		infoByType = map[reflect.Type]*protoimpl.MessageInfo{}
		protoregistry.GlobalTypes.RangeMessages(func(mt protoreflect.MessageType) bool {
			if mi, ok := mt.(*protoimpl.MessageInfo); ok && mi.GoReflectType != nil {
				infoByType[mi.GoReflectType] = mi
			}
			return true
		})
	}
	mi := infoByType[reflect.TypeOf(m)]
	if mi == nil {
		panic(fmt.Sprintf("no registered MessageInfo for %T", m))
	}
	return mi
}

func clip(s string, n int) string {
	if len(s) > n {
		return s[:n] + fmt.Sprintf("...(+%d)", len(s)-n)
	}
	return s
}
