package main

// Concurrent leg of property C05: equal messages, each owned by one task (or
// shared by two), are marshalled deterministically by several goroutines at the
// same time under the deterministic scheduler; every result must be the bytes
// a lone sequential marshal yields. Package-level state shared between
// marshal calls of DIFFERENT messages (a reused sort buffer, a sorter value, a
// scratch ring) shows up here and nowhere in the single-goroutine engine.

import (
	"encoding/hex"
	"fmt"
	"strings"

	"github.com/cosmos/cosmos-proto/internal/verifsim/simhook"
	"github.com/cosmos/cosmos-proto/internal/verifsim/simrun"
	"github.com/cosmos/cosmos-proto/internal/verifsim/simval"
	"google.golang.org/protobuf/proto"
	"google.golang.org/protobuf/runtime/protoiface"
)

type detOp struct {
	api  int
	ord  uint64
	mode int
}

func detMarshal(m proto.Message, op detOp) (res string) {
	defer func() {
		if r := recover(); r != nil {
			res = fmt.Sprintf("panic: %v", r)
		}
	}()
	simhook.SetTaskOrd(&simhook.OrderCtl{Seed: op.ord, Mode: op.mode, NoSiteStats: true})
	defer simhook.SetTaskOrd(nil)
	switch op.api {
	case 0:
		b, err := proto.MarshalOptions{Deterministic: true}.Marshal(m)
		return render(b, err)
	case 1:
		prefix := make([]byte, 2, 40)
		b, err := proto.MarshalOptions{Deterministic: true}.MarshalAppend(prefix, m)
		if err == nil && len(b) >= 2 {
			b = b[2:]
		}
		return render(b, err)
	default:
		meth := m.ProtoReflect().ProtoMethods()
		out, err := meth.Marshal(protoiface.MarshalInput{Message: m.ProtoReflect(), Flags: protoiface.MarshalDeterministic})
		return render(out.Buf, err)
	}
}

// render: the bytes of a successful call; of a failed one only the error
// (whatever partial output comes with an error is not an encoding).
func render(b []byte, err error) string {
	if err != nil {
		return "error: " + err.Error()
	}
	return fmt.Sprintf("%x", b)
}

func runDetMarshal(c *simrun.Ctx) *simrun.Violation {
	t := c.T
	st := c.Stats
	proto0 := pickType(t)
	mt := proto0.ProtoReflect().Type()
	md := mt.Descriptor()
	cfg := simval.GenCfg{MaxDepth: 1 + t.Draw("maxdepth", 3), MaxFields: 1 + t.Draw("maxfields", 6), MaxMapEntries: 2 + t.Draw("maxentries", 8), MaxListLen: 1 + t.Draw("maxlist", 3), AnyTargets: anyTargets(), InvalidUTF8: t.Chance("allow-invalid-utf8", 1, 5), Huge: t.Chance("allow-huge", 1, 12)}
	av := simval.Gen(t, md, cfg)
	canon := simval.Canon(av)
	pr := simval.ProbeValue(av)
	build := func() proto.Message {
		h := &simval.History{T: t, PermuteInserts: true}
		var m proto.Message
		var err error
		if t.Chance("build-struct", 1, 2) {
			m, err = h.BuildStruct(av, mt)
		} else {
			m, err = h.BuildReflect(av, mt)
		}
		if err != nil {
			return nil
		}
		if got, err := simval.CanonStruct(m); err != nil || got != canon {
			return nil
		}
		return m
	}
	nTasks := 2 + t.Draw("ntasks", 4)
	msgs := make([]proto.Message, nTasks)
	progs := make([][]detOp, nTasks)
	results := make([][]string, nTasks)
	ordBase := uint64(t.Draw("ordbase", 1<<30))
	for i := range msgs {
		if i > 0 && t.Chance("share-with-previous", 1, 5) {
			msgs[i] = msgs[i-1]
		} else {
			msgs[i] = build()
		}
		if msgs[i] == nil {
			st.Add("runs_discarded_build_mismatch", 1)
			return nil
		}
		n := 1 + t.Draw("nops", 4)
		for j := 0; j < n; j++ {
			progs[i] = append(progs[i], detOp{api: t.Draw("api", 3), ord: simhook.Mix(ordBase, uint64(i), uint64(j)), mode: t.Draw("ordmode", simhook.OrdModes)})
		}
		results[i] = make([]string, n)
	}
	// noise: tasks that marshal and size WITHOUT the Deterministic option at
	// the same time (their results are not compared; whatever they share with
	// the deterministic calls must not leak into those)
	nNoise := t.Draw("noise-tasks", 3)
	noise := make([]proto.Message, nNoise)
	noiseOps := make([]int, nNoise)
	for i := range noise {
		noise[i] = build()
		noiseOps[i] = 1 + t.Draw("noise-ops", 4)
		if noise[i] == nil {
			st.Add("runs_discarded_build_mismatch", 1)
			return nil
		}
	}
	noiseSeed := uint64(t.Draw("noise-ordseed", 1<<30))
	reference := build()
	if reference == nil {
		st.Add("runs_discarded_build_mismatch", 1)
		return nil
	}
	warmUp(md, false)
	sched := simhook.NewSched()
	sched.MaxSteps = 300 + t.Draw("maxsteps", 600)
	for i := range msgs {
		i := i
		sched.Add(func(_ *simhook.Task) {
			for j, op := range progs[i] {
				results[i][j] = detMarshal(msgs[i], op)
			}
		})
	}
	for i := range noise {
		i := i
		sched.Add(func(_ *simhook.Task) {
			defer func() { recover() }()
			for j := 0; j < noiseOps[i]; j++ {
				simhook.SetTaskOrd(&simhook.OrderCtl{Seed: simhook.Mix(noiseSeed, uint64(i), uint64(j)), Mode: simhook.OrdShuffle, NoSiteStats: true})
				proto.Marshal(noise[i])
				proto.Size(noise[i])
			}
			simhook.SetTaskOrd(nil)
		})
	}
	if nNoise > 0 {
		st.Add("fault_concurrent_nondeterministic_marshals", int64(nNoise))
	}
	sched.Choose = func(runnable []int, last []int) (int, int) {
		return runnable[t.Draw("task", len(runnable))], quanta[t.Draw("quantum", len(quanta))]
	}
	var schedule []string
	sched.AfterStep = func(step, task, site int) bool {
		if len(schedule) < 200 {
			schedule = append(schedule, fmt.Sprintf("t%d@%s", task, simhook.SiteName(site)))
		}
		return true
	}
	newRaceReports()
	sched.Run()
	newRaceReports() // a race alone is property C11's business; here bytes decide
	if sched.Abandoned {
		st.Add("runs_abandoned_lock_held_across_a_yield_point", 1)
		return nil
	}
	st.Add("simulations", 1)
	st.Add("scheduler_steps", int64(sched.Steps))
	st.Add("fault_context_switches", int64(sched.Switches))
	st.Add("probe_task_blocked_in_a_real_lock_and_holder_released_it", int64(sched.Blocked))
	if sched.Switches >= 4 {
		st.Add("runs_with_4plus_preemptions", 1)
	}
	if pr.Maps > 0 && pr.MaxMapLen >= 2 {
		st.Add("values_nontrivial", 1)
	}
	c.Observe(sched.SeqHash, uint64(sched.Steps))
	c.Result = sched.SeqHash
	c.Trace = append(c.Trace, fmt.Sprintf("type=%s value=%s", md.FullName(), clip(canon, 400)), "schedule: "+strings.Join(schedule, " "))
	golden := detMarshal(reference, detOp{api: 0})
	for i := range results {
		for j, r := range results[i] {
			st.Add("concurrent_encodings", 1)
			c.Observe(simhook.HashString(r))
			if r != golden {
				return &simrun.Violation{Class: "C05:encoding-differs-when-marshalled-concurrently", Detail: map[string]interface{}{
					"type": string(md.FullName()), "value": clip(canon, 3000), "task": i, "op": j, "api": progs[i][j].api,
					"sequential": clip(golden, 1500), "concurrent": clip(r, 1500), "tasks": nTasks,
					"first_diff_at": hexDiff(golden, r)}}
			}
		}
	}
	c.Sample = map[string]interface{}{"type": string(md.FullName()), "value": clip(canon, 300), "tasks": nTasks, "steps": sched.Steps}
	return nil
}

func hexDiff(a, b string) int {
	n := len(a)
	if len(b) < n {
		n = len(b)
	}
	for i := 0; i < n; i++ {
		if a[i] != b[i] {
			return i / 2
		}
	}
	return n / 2
}

var _ = hex.EncodeToString
