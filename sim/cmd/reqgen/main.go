// reqgen writes the CodeGeneratorRequests used by the checks: the checked-in
// packages (from the descriptors their generated code registers) and the
// simulation corpus (built as descriptors). There is no protoc in the sandbox.
package main

import (
	"encoding/json"
	"flag"
	"fmt"
	"os"
	"path/filepath"
	"strings"

	_ "github.com/cosmos/cosmos-proto"
	_ "github.com/cosmos/cosmos-proto/internal/testprotos/test3"
	"github.com/cosmos/cosmos-proto/internal/verifsim/shapesdesc"
	"github.com/cosmos/cosmos-proto/internal/verifsim/simhook"
	_ "github.com/cosmos/cosmos-proto/testpb"
	"google.golang.org/protobuf/proto"
	"google.golang.org/protobuf/reflect/protodesc"
	"google.golang.org/protobuf/reflect/protoreflect"
	"google.golang.org/protobuf/reflect/protoregistry"
	"google.golang.org/protobuf/types/descriptorpb"
	_ "google.golang.org/protobuf/types/known/anypb"
	_ "google.golang.org/protobuf/types/known/durationpb"
	_ "google.golang.org/protobuf/types/known/timestamppb"
	"google.golang.org/protobuf/types/pluginpb"
)

type entry struct {
	Name      string   `json:"name"`
	File      string   `json:"file"`
	Generate  []string `json:"files_to_generate"`
	Parameter string   `json:"parameter"`
	GoPkgDir  string   `json:"go_pkg_dir"` // directory (relative to module root) receiving the output
	Packages  []pkgInfo `json:"packages,omitempty"`
}

// pkgInfo describes one Go package of a random corpus set.
type pkgInfo struct {
	ImportPath string   `json:"import_path"`
	Messages   []string `json:"messages"` // Go type names
}

func goMessages(prefix string, msgs []*descriptorpb.DescriptorProto, out *[]string) {
	for _, m := range msgs {
		if m.GetOptions().GetMapEntry() {
			continue
		}
		name := prefix + m.GetName()
		*out = append(*out, name)
		goMessages(name+"_", m.NestedType, out)
	}
}

func closure(fd protoreflect.FileDescriptor, seen map[string]bool, out *[]*descriptorpb.FileDescriptorProto) {
	if seen[fd.Path()] {
		return
	}
	seen[fd.Path()] = true
	imps := fd.Imports()
	for i := 0; i < imps.Len(); i++ {
		closure(imps.Get(i).FileDescriptor, seen, out)
	}
	*out = append(*out, protodesc.ToFileDescriptorProto(fd))
}

func registered(paths ...string) []*descriptorpb.FileDescriptorProto {
	seen := map[string]bool{}
	var out []*descriptorpb.FileDescriptorProto
	for _, p := range paths {
		fd, err := protoregistry.GlobalFiles.FindFileByPath(p)
		if err != nil {
			fmt.Fprintln(os.Stderr, "reqgen:", p, err)
			os.Exit(2)
		}
		closure(fd, seen, &out)
	}
	return out
}

func main() {
	outDir := flag.String("out", "", "output directory")
	nRandom := flag.Int("random", 0, "number of random corpus schema sets")
	seed := flag.Uint64("seed", 1, "VERIF_SEED (random corpus sets)")
	flag.Parse()
	if err := os.MkdirAll(*outDir, 0o755); err != nil {
		panic(err)
	}
	var index []entry
	write := func(name string, files []*descriptorpb.FileDescriptorProto, gen []string, param, dir string) {
		req := &pluginpb.CodeGeneratorRequest{FileToGenerate: gen, ProtoFile: files}
		if param != "" {
			req.Parameter = proto.String(param)
		}
		b, err := proto.MarshalOptions{Deterministic: true}.Marshal(req)
		if err != nil {
			panic(err)
		}
		fn := filepath.Join(*outDir, name+".req")
		if err := os.WriteFile(fn, b, 0o644); err != nil {
			panic(err)
		}
		index = append(index, entry{Name: name, File: fn, Generate: gen, Parameter: param, GoPkgDir: dir})
	}

	// corpus: validate first so that a harness bug is reported here
	sh := shapesdesc.Files()
	deps := registered("google/protobuf/any.proto", "google/protobuf/timestamp.proto", "google/protobuf/duration.proto")
	{
		fds := &descriptorpb.FileDescriptorSet{File: append(append([]*descriptorpb.FileDescriptorProto{}, deps...), sh...)}
		if _, err := protodesc.NewFiles(fds); err != nil {
			fmt.Fprintln(os.Stderr, "reqgen: corpus schema invalid:", err)
			os.Exit(2)
		}
	}
	write("shapes", append(append([]*descriptorpb.FileDescriptorProto{}, deps...), sh...),
		[]string{shapesdesc.MainFile, shapesdesc.ExtraFile}, "features=protoc+fast", "internal/verifsim/shapes")

	mCosmos := "Mcosmos_proto/cosmos.proto=github.com/cosmos/cosmos-proto;cosmos_proto"
	write("testpb", registered("1.proto", "2.proto", "3.proto"), []string{"1.proto", "2.proto", "3.proto"},
		"features=protoc+fast,paths=source_relative,"+mCosmos, "testpb")
	t3 := []string{"internal/testprotos/test3/test.proto", "internal/testprotos/test3/test_import.proto", "internal/testprotos/test3/test_nesting.proto"}
	write("test3", registered(t3...), t3, "features=protoc+fast,paths=source_relative", "")

	// random corpus schema sets for the codec engines (compilable flavour)
	for k := 0; k < *nRandom; k++ {
		tape := simhook.NewSearchTape(simhook.Mix(*seed, uint64(k), simhook.HashString("rndcorpus")))
		set := shapesdesc.RandomSet(tape, shapesdesc.RandomOpts{Tag: fmt.Sprintf("s%d", k), CrossPackage: k%2 == 1})
		all := append(append([]*descriptorpb.FileDescriptorProto{}, deps...), set...)
		if _, err := protodesc.NewFiles(&descriptorpb.FileDescriptorSet{File: all}); err != nil {
			fmt.Fprintln(os.Stderr, "reqgen: random corpus set invalid (harness bug):", err)
			os.Exit(2)
		}
		var gen []string
		byPkg := map[string]*pkgInfo{}
		var order []string
		for _, f := range set {
			gen = append(gen, f.GetName())
			ip := strings.SplitN(f.GetOptions().GetGoPackage(), ";", 2)[0]
			if byPkg[ip] == nil {
				byPkg[ip] = &pkgInfo{ImportPath: ip}
				order = append(order, ip)
			}
			goMessages("", f.MessageType, &byPkg[ip].Messages)
		}
		if k%2 == 1 && len(order) > 1 {
			// every other set is generated with ONE PLUGIN INVOCATION PER GO
			// PACKAGE (how per-directory builds call the plugin): code generated
			// for a package must not depend on what is generated along with it
			for pi, ip := range order {
				var sub []string
				for _, f := range set {
					if strings.SplitN(f.GetOptions().GetGoPackage(), ";", 2)[0] == ip {
						sub = append(sub, f.GetName())
					}
				}
				write(fmt.Sprintf("rnd%dp%d", k, pi), set, sub, "features=protoc+fast", "")
				index[len(index)-1].Packages = append(index[len(index)-1].Packages, *byPkg[ip])
			}
			continue
		}
		write(fmt.Sprintf("rnd%d", k), set, gen, "features=protoc+fast", "")
		for _, ip := range order {
			index[len(index)-1].Packages = append(index[len(index)-1].Packages, *byPkg[ip])
		}
	}

	// the repository's own option declarations (extensions of descriptor.proto options)
	write("cosmos", registered("cosmos_proto/cosmos.proto"), []string{"cosmos_proto/cosmos.proto"}, "features=protoc+fast", "")

	b, _ := json.MarshalIndent(index, "", " ")
	if err := os.WriteFile(filepath.Join(*outDir, "index.json"), b, 0o644); err != nil {
		panic(err)
	}
}
