package simhook

import (
	"sync"
	"sync/atomic"
	"testing"
)

// Tasks that take a real mutex (or a sync.Once, or wait on a sync.Cond)
// around yield points: the scheduler must find the blocked task, let the
// holder go on, park the woken task at its next yield point, finish every
// task, and produce the same (task, site) sequence for the same choices.
func runLocked(t *testing.T, seed uint64, nTasks int) (uint64, int, int) {
	var mu sync.Mutex
	var once sync.Once
	cond := sync.NewCond(&sync.Mutex{})
	ready := false
	shared := 0
	s := NewSched()
	for i := 0; i < nTasks; i++ {
		i := i
		s.Add(func(*Task) {
			for k := 0; k < 3; k++ {
				Yield(1)
				mu.Lock()
				Yield(2)
				shared++
				Yield(3)
				mu.Unlock()
				Yield(4)
				once.Do(func() {
					Yield(5)
					mu.Lock()
					shared += 100
					mu.Unlock()
					Yield(6)
				})
			}
			if i == 0 {
				Yield(7)
				cond.L.Lock()
				ready = true
				cond.L.Unlock()
				cond.Broadcast()
			} else {
				cond.L.Lock()
				for !ready {
					cond.Wait()
					Yield(8)
				}
				cond.L.Unlock()
			}
			Yield(9)
		})
	}
	tape := NewSearchTape(seed)
	s.Choose = func(runnable []int, _ []int) (int, int) {
		return runnable[tape.Draw("task", len(runnable))], 1 + tape.Draw("q", 3)
	}
	var seq []int
	s.AfterStep = func(step, task, site int) bool { seq = append(seq, task*100+site); return true }
	s.Run()
	if testing.Verbose() && nTasks == 2 {
		t.Logf("seed %d: %v blocked=%d", seed, seq, s.Blocked)
	}
	if s.Abandoned || s.Deadlocked {
		t.Fatalf("seed %d: abandoned=%v deadlocked=%v", seed, s.Abandoned, s.Deadlocked)
	}
	if shared != 100+3*nTasks {
		t.Fatalf("seed %d: shared=%d, want %d", seed, shared, 100+3*nTasks)
	}
	return s.SeqHash, s.Blocked, s.Rejoined
}

func TestBlockedTasksAreRescheduled(t *testing.T) {
	old := StallMillis
	StallMillis = 20000
	defer func() { StallMillis = old }()
	blocked := 0
	for seed := uint64(1); seed <= 12; seed++ {
		// two tasks: at most one waiter per primitive, so which task a release
		// wakes is not up to the Go runtime and the run must repeat exactly
		h1, b1, r1 := runLocked(t, seed, 2)
		h2, b2, r2 := runLocked(t, seed, 2)
		if h1 != h2 || b1 != b2 || r1 != r2 {
			t.Fatalf("seed %d: not reproducible: %x/%d/%d vs %x/%d/%d", seed, h1, b1, r1, h2, b2, r2)
		}
		// four tasks: several waiters race for one lock when they are woken
		// together; the run must still finish with every task done
		_, b4, _ := runLocked(t, seed, 4)
		blocked += b1 + b4
	}
	if blocked == 0 {
		t.Fatal("no task was ever found blocked: the test does not exercise the path")
	}
	t.Logf("blocked tasks handled: %d", blocked)
}

// Tear-down (MaxSteps reached) while tasks are blocked in a real lock and
// others wait on conditions: yield points no longer park, waits still do, and
// a woken task must not take itself for the running one.
func TestBlockedTasksDuringTearDown(t *testing.T) {
	old := StallMillis
	StallMillis = 20000
	defer func() { StallMillis = old }()
	for seed := uint64(1); seed <= 10; seed++ {
		var mu sync.Mutex
		flags := make([]atomic.Bool, 5)
		total := 0
		s := NewSched()
		s.MaxSteps = 4 + int(seed)
		s.Ready = func(kind, arg int) bool { return flags[arg].Load() }
		for i := 0; i < 5; i++ {
			i := i
			s.Add(func(*Task) {
				for k := 0; k < 2; k++ {
					Yield(1)
					mu.Lock()
					Yield(2)
					total++
					Yield(3)
					mu.Unlock()
				}
				if i > 0 {
					WaitOn(1, i-1)
				}
				mu.Lock()
				flags[i].Store(true)
				mu.Unlock()
				Yield(4)
			})
		}
		tape := NewSearchTape(seed)
		s.Choose = func(runnable []int, _ []int) (int, int) {
			return runnable[tape.Draw("task", len(runnable))], 1 + tape.Draw("q", 2)
		}
		s.Run()
		if s.Abandoned || s.Deadlocked {
			t.Fatalf("seed %d: abandoned=%v deadlocked=%v", seed, s.Abandoned, s.Deadlocked)
		}
		if total != 10 || !flags[4].Load() {
			t.Fatalf("seed %d: total=%d last flag=%v", seed, total, flags[4].Load())
		}
	}
}
