package simhook

import (
	"sync"
	"testing"
)

// Tasks that take a real mutex (or a sync.Once, or wait on a sync.Cond)
// around yield points: the scheduler must find the blocked task, let the
// holder go on, park the woken task at its next yield point, finish every
// task, and produce the same (task, site) sequence for the same choices.
func runLocked(t *testing.T, seed uint64, nTasks int) (uint64, int, int) {
	var mu sync.Mutex
	var once sync.Once
	cond := sync.NewCond(&sync.Mutex{})
	ready := false
	shared := 0
	s := NewSched()
	for i := 0; i < nTasks; i++ {
		i := i
		s.Add(func(*Task) {
			for k := 0; k < 3; k++ {
				Yield(1)
				mu.Lock()
				Yield(2)
				shared++
				Yield(3)
				mu.Unlock()
				Yield(4)
				once.Do(func() {
					Yield(5)
					mu.Lock()
					shared += 100
					mu.Unlock()
					Yield(6)
				})
			}
			if i == 0 {
				Yield(7)
				cond.L.Lock()
				ready = true
				cond.L.Unlock()
				cond.Broadcast()
			} else {
				cond.L.Lock()
				for !ready {
					cond.Wait()
					Yield(8)
				}
				cond.L.Unlock()
			}
			Yield(9)
		})
	}
	tape := NewSearchTape(seed)
	s.Choose = func(runnable []int, _ []int) (int, int) {
		return runnable[tape.Draw("task", len(runnable))], 1 + tape.Draw("q", 3)
	}
	var seq []int
	s.AfterStep = func(step, task, site int) bool { seq = append(seq, task*100+site); return true }
	s.Run()
	if testing.Verbose() && nTasks == 2 {
		t.Logf("seed %d: %v blocked=%d", seed, seq, s.Blocked)
	}
	if s.Abandoned || s.Deadlocked {
		t.Fatalf("seed %d: abandoned=%v deadlocked=%v", seed, s.Abandoned, s.Deadlocked)
	}
	if shared != 100+3*nTasks {
		t.Fatalf("seed %d: shared=%d, want %d", seed, shared, 100+3*nTasks)
	}
	return s.SeqHash, s.Blocked, s.Rejoined
}

func TestBlockedTasksAreRescheduled(t *testing.T) {
	old := StallMillis
	StallMillis = 20000
	defer func() { StallMillis = old }()
	blocked := 0
	for seed := uint64(1); seed <= 12; seed++ {
		// two tasks: at most one waiter per primitive, so which task a release
		// wakes is not up to the Go runtime and the run must repeat exactly
		h1, b1, r1 := runLocked(t, seed, 2)
		h2, b2, r2 := runLocked(t, seed, 2)
		if h1 != h2 || b1 != b2 || r1 != r2 {
			t.Fatalf("seed %d: not reproducible: %x/%d/%d vs %x/%d/%d", seed, h1, b1, r1, h2, b2, r2)
		}
		// four tasks: several waiters race for one lock when they are woken
		// together; the run must still finish with every task done
		_, b4, _ := runLocked(t, seed, 4)
		blocked += b1 + b4
	}
	if blocked == 0 {
		t.Fatal("no task was ever found blocked: the test does not exercise the path")
	}
	t.Logf("blocked tasks handled: %d", blocked)
}
