package simhook

import (
	"fmt"
	"os"
	"runtime"
	"sync"
	"syscall"
	"time"
	"unsafe"
)

// Sched is a cooperative scheduler for real goroutines. Exactly one task runs
// at a time; which one, and for how many yield points, is decided by the
// Choose callback (which draws from the tape). The baton that parks and
// releases tasks is a kernel pipe driven by raw system calls from functions
// the race detector does not instrument: the hand-off is a real memory
// barrier, but it creates no happens-before edge in the detector's vector
// clocks, so accesses made by different tasks are treated as concurrent no
// matter how they were interleaved. A plain write on a read path is therefore
// reported whichever schedule exposed it, and the schedule itself replays
// exactly.
type Sched struct {
	tasks   []*Task
	cur      int
	lastTask int
	quantum  int
	inSched bool
	ctlR    int
	ctlW    int
	wg      sync.WaitGroup

	Steps      int
	Foreign    int // yield points reached by goroutines that are not tasks
	Yields     uint64
	Switches   int
	SeqHash    uint64 // digest of the (task, yield-site) sequence
	MaxSteps   int
	Choose     func(runnable []int, lastSite []int) (task int, quantum int)
	// Ready evaluates a task's wait condition (set with WaitOn); it is called
	// by the scheduler goroutine while every task is parked and must be a
	// go:norace function reading harness state only.
	Ready      func(kind, arg int) bool
	Deadlocked bool
	// Abandoned: the running task made no progress for a while - it is blocked
	// on a lock that a parked task holds (code under test took a mutex around a
	// yield point; nothing on the unchanged tree does). The schedule is given
	// up: every task is released and runs freely to its end; the run decides
	// nothing.
	Abandoned bool
	// ExitOnStall: instead of releasing the tasks, end the worker process
	// through OnStallExit (scenarios whose tasks share harness state).
	ExitOnStall bool
	AfterStep  func(step int, task int, site int) bool // false = stop the run (oracle fired)
	stopped    bool
	killTimer  *time.Timer

	// Blocked counts how often the running task turned out to be blocked in a
	// real synchronisation primitive (sync.Mutex, sync.Once, sync.Cond,
	// sync.WaitGroup, a channel) that a parked task has to release; Rejoined how
	// often such a task came back to a yield point and was parked again.
	Blocked  int
	Rejoined int
	nBlocked int
	stackBuf []byte
}

type Task struct {
	ID       int
	Fn       func(t *Task)
	Ord      *OrderCtl
	r, w     int
	done     bool
	started  bool
	LastSite int
	goid     uint64
	parked   bool
	blocked  bool // blocked in a real synchronisation primitive, not at a yield point
	Panic    interface{}
	waitKind int
	waitArg  int
}

// StallMillis is how long the running task may go without reaching a yield
// point, a wait or its end before the scheduler concludes that it is blocked on
// a lock held by a parked task. Long enough that a loaded machine never gets
// there (a real lock-up is permanent, so waiting costs nothing but time).
var StallMillis = 30000

// OnStallExit is installed by the engine framework: it writes the batch result
// collected so far and ends the process with status 0.
var OnStallExit func()

// Active is the running scheduler (nil = simulator inactive: Yield is a nil check).
var Active *Sched

// YieldSiteNames maps yield ids to file:line (filled by generated code).
var YieldSiteNames []string

// Yield is the candidate preemption point inserted by pass Y.
//
//go:norace
func Yield(site int) {
	s := Active
	if s == nil || s.stopped {
		return
	}
	if s.nBlocked != 0 {
		// some task is (or was) blocked in a real synchronisation primitive: it
		// may be the caller, woken up; tasks are told apart by goroutine id for
		// as long as that lasts
		g := curGoid()
		if s.rejoin(g, site) {
			return
		}
		if s.inSched || s.cur < 0 || g != s.tasks[s.cur].goid {
			return
		}
		// the running task stops at every yield point for as long as another
		// one is blocked: if it has just released that one, the woken task gets
		// to its own yield point before anybody moves on
		s.quantum = 1
	}
	if s.inSched || s.cur < 0 {
		return
	}
	s.Yields++
	s.quantum--
	if s.quantum > 0 {
		return
	}
	t := s.tasks[s.cur]
	if curGoid() != t.goid {
		// a goroutine started by the code under test itself (none exists on the
		// unchanged tree): it is not a task, it runs freely and must never take
		// part in the baton protocol
		s.quantum = 1
		s.Foreign++
		return
	}
	t.LastSite = site
	s.inSched = true
	t.parked = true
	rawWrite2(s.ctlW, 'y', t.ID)
	rawRead(t.r)
	t.parked = false
}

// rejoin: if the calling goroutine is a task that the scheduler had found
// blocked in a synchronisation primitive, it has been woken up (the holder
// released it) and reached its next yield point: it reports back, parks, and
// returns true once the scheduler has picked it again.
//
//go:norace
func (s *Sched) rejoin(goid uint64, site int) bool {
	for _, t := range s.tasks {
		if t.blocked && t.goid == goid {
			t.LastSite = site
			t.parked = true
			rawWrite2(s.ctlW, 'u', t.ID)
			rawRead(t.r)
			t.parked = false
			return true
		}
	}
	return false
}

// curGoid reads the current goroutine's id from the first line of its stack
// trace ("goroutine 123 [running]:"). It is called only when a task is about to
// park, never on the fast path.
//
//go:norace
func curGoid() uint64 {
	var buf [48]byte
	n := runtime.Stack(buf[:], false)
	var id uint64
	for i := len("goroutine "); i < n && buf[i] >= '0' && buf[i] <= '9'; i++ {
		id = id*10 + uint64(buf[i]-'0')
	}
	return id
}

// WaitOn parks the calling task until the scheduler's Ready(kind, arg) holds.
// kind 0 means "not waiting".
//
//go:norace
func WaitOn(kind, arg int) {
	s := Active
	if s == nil {
		return
	}
	if s.nBlocked != 0 {
		// (also during tear-down: yield points no longer park then, but waits
		// do, and a task that was blocked and has been woken must not take
		// itself for the running one)
		g := curGoid()
		if !s.rejoin(g, -3) && (s.inSched || s.cur < 0 || g != s.tasks[s.cur].goid) {
			return
		}
	}
	if s.inSched || s.cur < 0 {
		return
	}
	t := s.tasks[s.cur]
	for !s.Ready(kind, arg) {
		if s.Deadlocked {
			panic("simhook: deadlock: wait condition can never become true")
		}
		if s.Abandoned {
			runtime.Gosched() // free-running tear-down: poll the condition
			continue
		}
		t.waitKind, t.waitArg = kind, arg
		t.LastSite = -3
		s.inSched = true
		t.parked = true
		rawWrite2(s.ctlW, 'w', t.ID)
		rawRead(t.r)
		t.parked = false
		t.waitKind = 0
	}
}

// curOrd returns the order controller of the running task, or the global one.
//
//go:norace
func curOrd() *OrderCtl {
	if s := Active; s != nil && !s.inSched && s.cur >= 0 {
		return s.tasks[s.cur].Ord
	}
	return Ord
}

// SetTaskOrd installs the order controller of the calling (running) task.
//
//go:norace
func SetTaskOrd(c *OrderCtl) {
	if s := Active; s != nil && !s.inSched && s.cur >= 0 {
		s.tasks[s.cur].Ord = c
		return
	}
	Ord = c
}

//go:norace
func rawWrite(fd int, b byte) {
	buf := [1]byte{b}
	for {
		_, _, e := syscall.Syscall(syscall.SYS_WRITE, uintptr(fd), uintptr(unsafe.Pointer(&buf[0])), 1)
		if e == syscall.EINTR {
			continue
		}
		if e != 0 {
			fmt.Fprintf(os.Stderr, "simhook: baton write failed: %v\n", e)
			os.Exit(2)
		}
		return
	}
}

//go:norace
func rawRead(fd int) byte {
	var buf [1]byte
	for {
		n, _, e := syscall.Syscall(syscall.SYS_READ, uintptr(fd), uintptr(unsafe.Pointer(&buf[0])), 1)
		if e == syscall.EINTR {
			continue
		}
		if e != 0 || n != 1 {
			fmt.Fprintf(os.Stderr, "simhook: baton read failed: n=%d %v\n", n, e)
			os.Exit(2)
		}
		return buf[0]
	}
}

// rawWrite2 sends one scheduler message (kind, task): two bytes in one write,
// which a pipe delivers atomically.
//
//go:norace
func rawWrite2(fd int, kind byte, id int) {
	buf := [2]byte{kind, byte(id)}
	for {
		n, _, e := syscall.Syscall(syscall.SYS_WRITE, uintptr(fd), uintptr(unsafe.Pointer(&buf[0])), 2)
		if e == syscall.EINTR {
			continue
		}
		if e != 0 || n != 2 {
			fmt.Fprintf(os.Stderr, "simhook: baton write failed: n=%d %v\n", n, e)
			os.Exit(2)
		}
		return
	}
}

// rawRead2Timeout waits up to ms milliseconds for one scheduler message.
//
//go:norace
func rawRead2Timeout(fd int, ms int) (kind byte, id int, ok bool) {
	p := pollFd{fd: int32(fd), events: 1} // POLLIN
	for {
		n, _, e := syscall.Syscall(syscall.SYS_POLL, uintptr(unsafe.Pointer(&p)), 1, uintptr(ms))
		if e == syscall.EINTR {
			continue
		}
		if e != 0 {
			fmt.Fprintf(os.Stderr, "simhook: poll failed: %v\n", e)
			os.Exit(2)
		}
		if n == 0 {
			return 0, 0, false
		}
		break
	}
	var buf [2]byte
	for {
		n, _, e := syscall.Syscall(syscall.SYS_READ, uintptr(fd), uintptr(unsafe.Pointer(&buf[0])), 2)
		if e == syscall.EINTR {
			continue
		}
		if e != 0 || n != 2 {
			fmt.Fprintf(os.Stderr, "simhook: baton read failed: n=%d %v\n", n, e)
			os.Exit(2)
		}
		return buf[0], int(buf[1]), true
	}
}

type pollFd struct {
	fd      int32
	events  int16
	revents int16
}

// rawReadTimeout waits up to ms milliseconds for a byte.
//
//go:norace
func rawReadTimeout(fd int, ms int) (byte, bool) {
	p := pollFd{fd: int32(fd), events: 1} // POLLIN
	for {
		n, _, e := syscall.Syscall(syscall.SYS_POLL, uintptr(unsafe.Pointer(&p)), 1, uintptr(ms))
		if e == syscall.EINTR {
			continue
		}
		if e != 0 {
			fmt.Fprintf(os.Stderr, "simhook: poll failed: %v\n", e)
			os.Exit(2)
		}
		if n == 0 {
			return 0, false
		}
		return rawRead(fd), true
	}
}

// abandon gives the schedule up (see Sched.Abandoned): every parked task is
// released, nothing parks any more, and the scheduler waits for all of them.
//
//go:norace
func (s *Sched) abandon(running int) {
	if os.Getenv("VERIFSIM_DUMP") != "" {
		fmt.Fprintf(os.Stderr, "simhook: abandoning the schedule (running=%d, blocked=%d)\n", running, s.nBlocked)
		for i, t := range s.tasks {
			fmt.Fprintf(os.Stderr, "  task %d goid=%d done=%v parked=%v blocked=%v wait=%d/%d last=%d\n", i, t.goid, t.done, t.parked, t.blocked, t.waitKind, t.waitArg, t.LastSite)
		}
		buf := make([]byte, 1<<20)
		os.Stderr.Write(buf[:runtime.Stack(buf, true)])
	}
	s.Abandoned = true
	s.stopped = true
	alive := 0
	for i, t := range s.tasks {
		if t.done {
			continue
		}
		alive++
		if i != running && t.parked {
			rawWrite(t.w, 'g')
		}
	}
	for alive > 0 {
		b, _, ok := rawRead2Timeout(s.ctlR, 120000)
		if !ok {
			fmt.Fprintln(os.Stderr, "simhook: scheduler watchdog: tasks did not finish after the schedule was abandoned")
			if os.Getenv("VERIFSIM_DUMP") != "" {
				buf := make([]byte, 1<<20)
				os.Stderr.Write(buf[:runtime.Stack(buf, true)])
			}
			os.Exit(2)
		}
		if b == 'd' {
			alive--
		}
	}
	s.inSched = true
	s.cur = -1
}


const (
	stepEnded = iota
	stepBlocked
	stepStalled
)

// note books a message of a task that is not the running one: a blocked task
// that was woken and has parked again ('u'), or that ran to its end ('d').
//
//go:norace
func (s *Sched) note(kind byte, id int) {
	if id < 0 || id >= len(s.tasks) {
		return
	}
	t := s.tasks[id]
	if t.blocked && (kind == 'u' || kind == 'd') {
		t.blocked = false
		s.nBlocked--
		if kind == 'u' {
			s.Rejoined++
		}
	}
}

// waitStep waits for the running task to reach a yield point, a wait or its
// end. While nothing arrives it looks at the task's goroutine: a goroutine in
// a blocking wait state of package sync or of a channel operation is blocked
// (stepBlocked, found within tens of milliseconds); one that is running or
// runnable is merely slow and is given StallMillis.
//
//go:norace
func (s *Sched) waitStep(ti int) int {
	t := s.tasks[ti]
	waited, probe := 0, 20
	for {
		k, id, ok := rawRead2Timeout(s.ctlR, probe)
		if ok {
			if id == ti && !t.blocked {
				return stepEnded
			}
			s.note(k, id)
			continue
		}
		waited += probe
		if s.goroutineWaiting(t.goid) {
			// look twice: the state has to last, and a message may have been
			// written just before the task blocked
			k, id, ok := rawRead2Timeout(s.ctlR, 10)
			if !ok && !s.goroutineWaiting(t.goid) {
				continue
			}
			if ok {
				if id == ti {
					return stepEnded
				}
				s.note(k, id)
				continue
			}
			return stepBlocked
		}
		if waited >= StallMillis {
			return stepStalled
		}
		if probe < 1000 {
			probe *= 2
		}
	}
}

// collectWoken waits for every blocked task that is no longer in a blocking
// wait state to report back from its next yield point (or its end).
//
//go:norace
func (s *Sched) collectWoken() bool {
	waited := 0
	for {
		pending := false
		for _, t := range s.tasks {
			if t.blocked && !t.done && !s.goroutineWaiting(t.goid) {
				pending = true
				break
			}
		}
		// a woken task may find the lock taken again and go back to sleep, so
		// the states are looked at again after every short wait
		ms := 0
		if pending {
			ms = 5
		}
		k, id, ok := rawRead2Timeout(s.ctlR, ms)
		if ok {
			s.note(k, id)
			continue
		}
		if !pending {
			return true
		}
		waited += ms
		if waited >= StallMillis {
			return false
		}
	}
}

var waitStates = []string{"sync.Mutex.Lock", "sync.RWMutex.RLock", "sync.RWMutex.Lock", "sync.Cond.Wait", "sync.WaitGroup.Wait", "semacquire", "chan receive", "chan send", "select"}

// goroutineWaiting reports whether the goroutine with that id is in one of the
// blocking wait states of package sync or of a channel operation, read from
// the header line of its stack trace ("goroutine 7 [sync.Mutex.Lock]:").
//
//go:norace
func (s *Sched) goroutineWaiting(goid uint64) bool {
	if s.stackBuf == nil {
		s.stackBuf = make([]byte, 1<<18)
	}
	var n int
	for {
		n = runtime.Stack(s.stackBuf, true)
		if n < len(s.stackBuf) {
			break
		}
		s.stackBuf = make([]byte, 2*len(s.stackBuf))
	}
	buf := s.stackBuf[:n]
	head := "goroutine " + utoa(goid) + " ["
	for i := 0; i+len(head) < len(buf); {
		if (i == 0 || buf[i-1] == '\n') && hasPrefixAt(buf, i, head) {
			j := i + len(head)
			k := j
			for k < len(buf) && buf[k] != ']' && buf[k] != ',' && buf[k] != '\n' {
				k++
			}
			state := buf[j:k]
			for _, w := range waitStates {
				if len(state) == len(w) && hasPrefixAt(state, 0, w) {
					// "semacquire" is also what a goroutine shows while it waits
					// for the runtime's own semaphores (the start of a GC cycle,
					// a stop-the-world such as the one this very stack dump
					// causes): it counts only if the innermost frame is in
					// package sync (sync.runtime_Semacquire under a WaitGroup)
					if w == "semacquire" {
						f := k
						for f < len(buf) && buf[f] != '\n' {
							f++
						}
						if !hasPrefixAt(buf, f+1, "sync.") {
							return false
						}
					}
					return true
				}
			}
			return false
		}
		// next line
		for i < len(buf) && buf[i] != '\n' {
			i++
		}
		i++
	}
	return false
}

//go:norace
func hasPrefixAt(b []byte, at int, p string) bool {
	if at+len(p) > len(b) {
		return false
	}
	for i := 0; i < len(p); i++ {
		if b[at+i] != p[i] {
			return false
		}
	}
	return true
}

//go:norace
func utoa(v uint64) string {
	var a [20]byte
	i := len(a)
	for {
		i--
		a[i] = byte('0' + v%10)
		v /= 10
		if v == 0 {
			break
		}
	}
	return string(a[i:])
}

func NewSched() *Sched {
	var p [2]int
	if err := syscall.Pipe(p[:]); err != nil {
		panic(err)
	}
	return &Sched{ctlR: p[0], ctlW: p[1], cur: -1, inSched: true, MaxSteps: 100000}
}

func (s *Sched) Add(fn func(t *Task)) *Task {
	var p [2]int
	if err := syscall.Pipe(p[:]); err != nil {
		panic(err)
	}
	t := &Task{ID: len(s.tasks), Fn: fn, r: p[0], w: p[1], LastSite: -1}
	s.tasks = append(s.tasks, t)
	return t
}

//go:norace
func (s *Sched) taskMain(t *Task) {
	defer s.wg.Done()
	t.goid = curGoid()
	t.parked = true
	rawRead(t.r)
	t.parked = false
	defer s.taskDone(t)
	t.Fn(t)
}

// taskDone is a named function (closures do not inherit go:norace).
//
//go:norace
func (s *Sched) taskDone(t *Task) {
	if r := recover(); r != nil {
		t.Panic = r
	}
	t.done = true
	if s.cur == t.ID && !t.blocked {
		s.inSched = true
	}
	rawWrite2(s.ctlW, 'd', t.ID)
}

// Run executes all tasks to completion (or until AfterStep stops the run).
// It must be called from the goroutine that owns the tape.
//
//go:norace
func (s *Sched) Run() {
	for _, t := range s.tasks {
		s.wg.Add(1)
		go s.taskMain(t)
	}
	Active = s
	// watchdog: a stalled hand-off is harness trouble, never a violation
	s.killTimer = time.AfterFunc(180*time.Second, func() {
		fmt.Fprintln(os.Stderr, "simhook: scheduler watchdog: no progress for 180 s (a task is blocked outside a yield point)")
		os.Exit(2)
	})
	lastSites := make([]int, len(s.tasks))
	for {
		if s.nBlocked > 0 {
			// a blocked task whose holder has released it is on its way to its
			// next yield point: wait until it has parked there, so that the set
			// of runnable tasks does not depend on timing
			if !s.collectWoken() {
				s.abandon(-1)
				break
			}
		}
		var runnable []int
		alive := 0
		for i, t := range s.tasks {
			if !t.done {
				alive++
				if !t.blocked && (t.waitKind == 0 || s.Deadlocked || s.Ready(t.waitKind, t.waitArg)) {
					runnable = append(runnable, i)
				}
			}
			lastSites[i] = t.LastSite
		}
		if alive == 0 {
			break
		}
		if len(runnable) == 0 {
			if s.nBlocked > 0 {
				// every task that could run is blocked in a synchronisation
				// primitive: somebody outside the tasks (a goroutine of the code
				// under test) has to release one of them
				k, id, ok := rawRead2Timeout(s.ctlR, StallMillis)
				if !ok {
					if s.ExitOnStall && OnStallExit != nil {
						OnStallExit()
					}
					s.abandon(-1)
					break
				}
				s.note(k, id)
				continue
			}
			// every live task waits for a condition nobody can make true:
			// harness trouble; release them so that they unwind
			s.Deadlocked = true
			s.stopped = true
			continue
		}
		if s.Steps >= s.MaxSteps && !s.stopped {
			s.stopped = true
		}
		var ti, q int
		if s.stopped {
			// tear-down: remaining tasks run to completion one after the other (Yield no longer parks)
			ti, q = runnable[0], 1
		} else {
			ti, q = s.Choose(runnable, lastSites)
		}
		if q < 1 || s.nBlocked > 0 {
			// while a task is blocked the others advance one yield point at a
			// time: a task that releases it stops right afterwards, before the
			// woken task and the releasing one could run side by side
			q = 1
		}
		t := s.tasks[ti]
		if s.lastTask != ti && s.Steps > 0 {
			s.Switches++
		}
		s.lastTask = ti
		s.cur = ti
		s.quantum = q
		s.inSched = false
		rawWrite(t.w, 'g')
		switch s.waitStep(ti) {
		case stepStalled:
			if s.ExitOnStall && OnStallExit != nil {
				// tasks that share unsynchronised harness state cannot be left
				// to run freely: the worker process hands in what it has and ends
				OnStallExit()
			}
			s.abandon(ti)
		case stepBlocked:
			// the task sits in a real Lock/Wait/receive that a parked task (or a
			// goroutine of the code under test) has to end: it stays where it
			// is and somebody else is scheduled; when it is woken it parks at
			// its next yield point and becomes runnable again
			s.inSched = true
			s.cur = -1
			t.blocked = true
			t.LastSite = -4
			s.nBlocked++
			s.Blocked++
			s.Steps++
			s.SeqHash = Mix(s.SeqHash, uint64(ti), 0xb10c)
			s.killTimer.Reset(180 * time.Second)
			continue
		}
		if s.Abandoned {
			break
		}
		s.inSched = true
		s.cur = -1
		s.Steps++
		s.SeqHash = Mix(s.SeqHash, uint64(ti), uint64(t.LastSite+1))
		s.killTimer.Reset(180 * time.Second)
		if !s.stopped && s.AfterStep != nil {
			if !s.AfterStep(s.Steps, ti, t.LastSite) {
				s.stopped = true
			}
		}
	}
	s.killTimer.Stop()
	Active = nil
	s.wg.Wait() // the only visible join: after it the scheduler may read what tasks wrote
	for _, t := range s.tasks {
		syscall.Close(t.r)
		syscall.Close(t.w)
	}
	syscall.Close(s.ctlR)
	syscall.Close(s.ctlW)
}

func (s *Sched) Tasks() []*Task { return s.tasks }

func SiteName(id int) string {
	if id >= 0 && id < len(YieldSiteNames) {
		return YieldSiteNames[id]
	}
	return fmt.Sprintf("site#%d", id)
}
