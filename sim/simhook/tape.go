// Package simhook is the seam between the simulator and the code under test.
// It is copied into a scratch copy of the repository at check time; nothing in
// it is ever committed to the repository under test.
//
// Everything the simulator decides is drawn through a Tape, so that one tape is
// one exactly repeatable execution.
package simhook

// Draw is one recorded decision.
type Draw struct {
	L string `json:"l"`
	N int    `json:"n"`
	V int    `json:"v"`
}

// Tape is the single source of every choice of a run. In search mode values
// come from splitmix64; in replay mode from the recorded values (a value that
// is out of range for the request is reduced modulo n; an exhausted tape yields
// 0, which by convention is always the simplest choice).
type Tape struct {
	state    uint64
	replay   []int
	isReplay bool
	pos      int
	Rec      []Draw
	// Limit bounds the number of draws of one run (safety net against runaway
	// generators when a shrunk tape changes the meaning of later draws).
	Limit    int
	Overflow bool
}

func NewSearchTape(seed uint64) *Tape {
	return &Tape{state: seed, Limit: 1 << 20}
}

func NewReplayTape(vals []int) *Tape {
	return &Tape{replay: vals, isReplay: true, Limit: 1 << 20}
}

func SplitMix(s *uint64) uint64 {
	*s += 0x9e3779b97f4a7c15
	z := *s
	z = (z ^ (z >> 30)) * 0xbf58476d1ce4e5b9
	z = (z ^ (z >> 27)) * 0x94d049bb133111eb
	return z ^ (z >> 31)
}

// Mix hashes a list of words into one seed.
func Mix(words ...uint64) uint64 {
	s := uint64(0x243f6a8885a308d3)
	for _, w := range words {
		s ^= w
		SplitMix(&s)
		s = SplitMix(&s)
	}
	return s
}

func HashString(s string) uint64 {
	h := uint64(14695981039346656037)
	for i := 0; i < len(s); i++ {
		h ^= uint64(s[i])
		h *= 1099511628211
	}
	return h
}

// Draw returns a value in [0,n). n<=1 returns 0 without consuming a draw.
func (t *Tape) Draw(label string, n int) int {
	if n <= 1 {
		return 0
	}
	if len(t.Rec) >= t.Limit {
		t.Overflow = true
		return 0
	}
	var v int
	if t.isReplay {
		if t.pos < len(t.replay) {
			v = t.replay[t.pos]
			if v < 0 {
				v = -v
			}
			v %= n
		}
		t.pos++
	} else {
		v = int(SplitMix(&t.state) % uint64(n))
	}
	t.Rec = append(t.Rec, Draw{label, n, v})
	return v
}

// Chance returns true with probability num/den; false is the simple choice.
func (t *Tape) Chance(label string, num, den int) bool {
	return t.Draw(label, den) >= den-num
}

// Seed64 draws a 64-bit value in two halves (0 is the simple choice).
func (t *Tape) Seed64(label string) uint64 {
	hi := uint64(t.Draw(label+".hi", 1<<31))
	lo := uint64(t.Draw(label+".lo", 1<<31))
	return hi<<31 | lo
}

// Perm returns a permutation of [0,n); the all-zero draws give the identity.
func (t *Tape) Perm(label string, n int) []int {
	p := make([]int, n)
	for i := range p {
		p[i] = i
	}
	for i := 0; i < n-1; i++ {
		j := i + t.Draw(label, n-i)
		p[i], p[j] = p[j], p[i]
	}
	return p
}

func (t *Tape) Values() []int {
	out := make([]int, len(t.Rec))
	for i, d := range t.Rec {
		out[i] = d.V
	}
	return out
}

// Hash is a digest of every draw made so far (part of the event log hash).
func (t *Tape) Hash() uint64 {
	h := uint64(1469598103934665603)
	for _, d := range t.Rec {
		h = Mix(h, HashString(d.L), uint64(d.N), uint64(d.V))
	}
	return h
}
