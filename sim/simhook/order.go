package simhook

import (
	"reflect"
	"sort"
)

// OrderCtl is the map-iteration-order seam. While Ord is nil (simulator
// inactive) instrumented range statements iterate in Go's native order and
// behave exactly like the original statement. While it is set, the keys of
// every visited map are sorted canonically and then permuted as a pure
// function of (Seed, Mode, visit counter), so the order at every range site on
// every visit is decided by the tape that chose Seed and Mode.
type OrderCtl struct {
	Seed uint64
	Mode int // 0 identity(sorted) 1 reverse 2 rotate 3 shuffle 4 enumerate-small

	Visits     uint64 // visits of maps with >=2 keys
	AllVisits  uint64
	AddrSorted uint64 // pointer keys that had to be ordered by address (probe; must stay 0)
	MaxKeys    int
	VecHash    uint64 // digest of the (site, permutation) vector of this activation
	// NoSiteStats turns off the per-site table (engine B: the table is a Go
	// map, and the runtime's own race annotations on map access would make the
	// race detector see the harness instead of the code under test).
	NoSiteStats bool
}

type SiteStat struct {
	Visits uint64
	Multi  uint64 // visits with >=2 keys
	Perms  map[uint64]struct{}
}

const (
	OrdIdentity = iota
	OrdReverse
	OrdRotate
	OrdShuffle
	OrdEnumerate
	OrdModes
)

// Ord is the active controller (nil = inactive).
var Ord *OrderCtl

// SiteTotals accumulates per-site statistics over a whole process.
var SiteTotals = map[string]*SiteStat{}

// MapIter replaces `for k, v := range m`: the map value is bound once, keys
// are listed once, and an entry deleted before it is reached is skipped (the
// rule the Go specification gives for range over a map).
type MapIter[K comparable, V any] struct {
	m    map[K]V
	keys []K
	i    int
	k    K
	v    V
}

func (it *MapIter[K, V]) Next() bool {
	for it.i < len(it.keys) {
		k := it.keys[it.i]
		it.i++
		if v, ok := it.m[k]; ok {
			it.k, it.v = k, v
			return true
		}
	}
	return false
}

func (it *MapIter[K, V]) Key() K { return it.k }
func (it *MapIter[K, V]) Val() V { return it.v }

func Iter[K comparable, V any](m map[K]V, site string) *MapIter[K, V] {
	it := &MapIter[K, V]{m: m}
	if len(m) == 0 {
		if c := curOrd(); c != nil {
			c.noteVisit(site, 0)
		}
		return it
	}
	keys := make([]K, 0, len(m))
	for k := range m {
		keys = append(keys, k)
	}
	it.keys = keys
	c := curOrd()
	if c == nil {
		return it
	}
	n := len(keys)
	byAddr := sortKeys(keys, m)
	seed, mode := c.noteVisit(site, n)
	if byAddr {
		c.noteAddr()
	}
	if n >= 2 {
		p := permFor(seed, mode, n)
		out := make([]K, n)
		for i, j := range p {
			out[i] = keys[j]
		}
		it.keys = out
		c.notePerm(site, p)
	}
	return it
}

//go:norace
func (c *OrderCtl) noteVisit(site string, n int) (uint64, int) {
	c.AllVisits++
	if n < 2 {
		return 0, 0
	}
	c.Visits++
	if n > c.MaxKeys {
		c.MaxKeys = n
	}
	return Mix(c.Seed, c.Visits), c.Mode
}

//go:norace
func (c *OrderCtl) noteAddr() { c.AddrSorted++ }

//go:norace
func (c *OrderCtl) notePerm(site string, p []int) {
	h := uint64(len(p))
	for _, x := range p {
		h = h*1000003 + uint64(x)
	}
	c.VecHash = Mix(c.VecHash, HashString(site), h)
	if c.NoSiteStats {
		return
	}
	st := SiteTotals[site]
	if st == nil {
		st = &SiteStat{Perms: map[uint64]struct{}{}}
		SiteTotals[site] = st
	}
	st.Visits++
	st.Multi++
	if len(st.Perms) < 4096 {
		st.Perms[h] = struct{}{}
	}
}

func factorial(n int) int {
	f := 1
	for i := 2; i <= n; i++ {
		f *= i
	}
	return f
}

// permFor returns the permutation applied to the canonically sorted keys.
func permFor(seed uint64, mode, n int) []int {
	p := make([]int, n)
	for i := range p {
		p[i] = i
	}
	switch mode {
	case OrdIdentity:
	case OrdReverse:
		for i, j := 0, n-1; i < j; i, j = i+1, j-1 {
			p[i], p[j] = p[j], p[i]
		}
	case OrdRotate:
		r := int(seed % uint64(n))
		for i := range p {
			p[i] = (i + r) % n
		}
	case OrdEnumerate:
		if n <= 5 {
			// Lehmer code of (seed mod n!): across repetitions with
			// consecutive seeds every order of a small map is produced.
			idx := int(seed % uint64(factorial(n)))
			avail := make([]int, n)
			for i := range avail {
				avail[i] = i
			}
			for i := 0; i < n; i++ {
				f := factorial(n - 1 - i)
				d := idx / f
				idx %= f
				p[i] = avail[d]
				avail = append(avail[:d], avail[d+1:]...)
			}
			return p
		}
		fallthrough
	default:
		s := seed
		for i := n - 1; i > 0; i-- {
			j := int(SplitMix(&s) % uint64(i+1))
			p[i], p[j] = p[j], p[i]
		}
	}
	return p
}

// sortKeys puts keys into a canonical order that does not depend on the
// runtime's iteration order. It reports whether it had to fall back to
// ordering pointers by address.
func sortKeys[K comparable, V any](keys []K, m map[K]V) bool {
	switch ks := any(keys).(type) {
	case []string:
		sort.Strings(ks)
	case []int32:
		sort.Slice(ks, func(i, j int) bool { return ks[i] < ks[j] })
	case []int64:
		sort.Slice(ks, func(i, j int) bool { return ks[i] < ks[j] })
	case []uint32:
		sort.Slice(ks, func(i, j int) bool { return ks[i] < ks[j] })
	case []uint64:
		sort.Slice(ks, func(i, j int) bool { return ks[i] < ks[j] })
	case []int:
		sort.Ints(ks)
	case []bool:
		sort.Slice(ks, func(i, j int) bool { return !ks[i] && ks[j] })
	default:
		return sortKeysReflect(keys, m)
	}
	return false
}

func sortKeysReflect[K comparable, V any](keys []K, m map[K]V) bool {
	byAddr := false
	kt := reflect.TypeOf(keys).Elem()
	if kt.Kind() == reflect.Pointer || kt.Kind() == reflect.UnsafePointer || kt.Kind() == reflect.Chan {
		// Prefer ordering by the map's value when that is an ordered basic
		// type and distinct per key.
		vt := reflect.TypeOf(m).Elem()
		if isOrderedBasic(vt.Kind()) {
			vals := make([]reflect.Value, len(keys))
			for i, k := range keys {
				vals[i] = reflect.ValueOf(m[k])
			}
			idx := make([]int, len(keys))
			for i := range idx {
				idx[i] = i
			}
			sort.SliceStable(idx, func(a, b int) bool { return lessValue(vals[idx[a]], vals[idx[b]]) < 0 })
			distinct := true
			for i := 1; i < len(idx); i++ {
				if lessValue(vals[idx[i-1]], vals[idx[i]]) == 0 {
					distinct = false
				}
			}
			if distinct {
				out := make([]K, len(keys))
				for i, j := range idx {
					out[i] = keys[j]
				}
				copy(keys, out)
				return false
			}
		}
		byAddr = true
	}
	sort.SliceStable(keys, func(i, j int) bool {
		return lessValue(reflect.ValueOf(keys[i]), reflect.ValueOf(keys[j])) < 0
	})
	return byAddr
}

func isOrderedBasic(k reflect.Kind) bool {
	switch k {
	case reflect.Int, reflect.Int8, reflect.Int16, reflect.Int32, reflect.Int64,
		reflect.Uint, reflect.Uint8, reflect.Uint16, reflect.Uint32, reflect.Uint64, reflect.Uintptr,
		reflect.String, reflect.Bool:
		return true
	}
	return false
}

func lessValue(a, b reflect.Value) int {
	switch a.Kind() {
	case reflect.Int, reflect.Int8, reflect.Int16, reflect.Int32, reflect.Int64:
		return cmp3(a.Int() < b.Int(), a.Int() > b.Int())
	case reflect.Uint, reflect.Uint8, reflect.Uint16, reflect.Uint32, reflect.Uint64, reflect.Uintptr:
		return cmp3(a.Uint() < b.Uint(), a.Uint() > b.Uint())
	case reflect.String:
		return cmp3(a.String() < b.String(), a.String() > b.String())
	case reflect.Bool:
		return cmp3(!a.Bool() && b.Bool(), a.Bool() && !b.Bool())
	case reflect.Pointer, reflect.UnsafePointer, reflect.Chan:
		return cmp3(a.Pointer() < b.Pointer(), a.Pointer() > b.Pointer())
	case reflect.Struct:
		for i := 0; i < a.NumField(); i++ {
			if c := lessValue(a.Field(i), b.Field(i)); c != 0 {
				return c
			}
		}
		return 0
	case reflect.Array:
		for i := 0; i < a.Len(); i++ {
			if c := lessValue(a.Index(i), b.Index(i)); c != 0 {
				return c
			}
		}
		return 0
	case reflect.Interface:
		if a.IsNil() || b.IsNil() {
			return cmp3(a.IsNil() && !b.IsNil(), !a.IsNil() && b.IsNil())
		}
		ta, tb := a.Elem().Type().String(), b.Elem().Type().String()
		if ta != tb {
			return cmp3(ta < tb, ta > tb)
		}
		return lessValue(a.Elem(), b.Elem())
	}
	return 0
}

func cmp3(lt, gt bool) int {
	if lt {
		return -1
	}
	if gt {
		return 1
	}
	return 0
}

// ---------------------------------------------------------------------------
// reflect-based map iteration (pass M rewrites v.MapKeys() and v.MapRange()
// on reflect.Value receivers in the instrumented packages to these)

// ReflectMapKeys is reflect.Value.MapKeys under the order seam.
func ReflectMapKeys(v reflect.Value, site string) []reflect.Value {
	keys := v.MapKeys()
	c := curOrd()
	if c == nil || len(keys) == 0 {
		return keys
	}
	sort.SliceStable(keys, func(i, j int) bool { return lessValue(keys[i], keys[j]) < 0 })
	seed, mode := c.noteVisit(site, len(keys))
	if len(keys) >= 2 {
		p := permFor(seed, mode, len(keys))
		out := make([]reflect.Value, len(keys))
		for i, j := range p {
			out[i] = keys[j]
		}
		c.notePerm(site, p)
		return out
	}
	return keys
}

// ReflectMapIter mimics *reflect.MapIter (Next / Key / Value).
type ReflectMapIter struct {
	m    reflect.Value
	keys []reflect.Value
	i    int
}

func ReflectMapRange(v reflect.Value, site string) *ReflectMapIter {
	return &ReflectMapIter{m: v, keys: ReflectMapKeys(v, site), i: -1}
}

func (it *ReflectMapIter) Next() bool {
	for it.i+1 < len(it.keys) {
		it.i++
		if it.m.MapIndex(it.keys[it.i]).IsValid() {
			return true
		}
	}
	it.i = len(it.keys)
	return false
}
func (it *ReflectMapIter) Key() reflect.Value   { return it.keys[it.i] }
func (it *ReflectMapIter) Value() reflect.Value { return it.m.MapIndex(it.keys[it.i]) }
