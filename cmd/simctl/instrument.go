package main

import (
	"bytes"
	"fmt"
	"go/ast"
	"go/format"
	"go/token"
	"go/types"
	"os"
	"path/filepath"
	"sort"
	"strconv"
	"strings"

	"golang.org/x/tools/go/ast/astutil"
	"golang.org/x/tools/go/packages"
)

const hookImportPath = "github.com/cosmos/cosmos-proto/internal/verifsim/simhook"

// InstrStats is what the instrumenter reports into evidence.
type InstrStats struct {
	MapRangeSites     int            `json:"map_range_sites_rewritten"`
	MapRangeSkipped   int            `json:"map_range_sites_left_unrewritten"`
	SkippedWhy        []string       `json:"map_range_skipped_sites,omitempty"`
	ReflectMapSites   int            `json:"reflect_map_iteration_sites_rewritten"`
	UnseamedMapIter   int            `json:"unseamed_map_iteration_uses"`
	UnseamedWhere     []string       `json:"unseamed_map_iteration_sites,omitempty"`
	YieldSites        int            `json:"yield_sites_inserted"`
	SitesPerPackage   map[string]int `json:"map_range_sites_per_package"`
	YieldPerFile      map[string]int `json:"yield_sites_per_file,omitempty"`
	Files             int            `json:"files_rewritten"`
	yieldSiteNames    []string
}

type instrOpts struct {
	Dir       string   // module root of the scratch copy
	Patterns  []string // package patterns for pass M
	YieldPkgs []string // package patterns whose files get pass Y
	YieldFile func(rel string) bool
	GoBin     string
}

func loadPackages(dir, gobin string, patterns []string) ([]*packages.Package, error) {
	cfg := &packages.Config{
		Mode: packages.NeedName | packages.NeedFiles | packages.NeedCompiledGoFiles | packages.NeedSyntax |
			packages.NeedTypes | packages.NeedTypesInfo | packages.NeedImports,
		Dir: dir,
		Env: append(os.Environ(), "GOFLAGS=-mod=mod", "GOPROXY=off", "GOSUMDB=off", "GOTOOLCHAIN=local"),
	}
	pkgs, err := packages.Load(cfg, patterns...)
	if err != nil {
		return nil, err
	}
	var errs []string
	for _, p := range pkgs {
		for _, e := range p.Errors {
			errs = append(errs, e.Error())
		}
	}
	if len(errs) > 0 {
		return nil, fmt.Errorf("package load errors: %s", strings.Join(errs, "; "))
	}
	return pkgs, nil
}

func hasNaNableKey(t types.Type, depth int) bool {
	if depth > 6 {
		return true
	}
	if _, ok := t.(*types.TypeParam); ok {
		// a generic helper ranging over map[K]V: the instantiations in this
		// repository are protobuf map key types, which cannot be NaN
		return false
	}
	switch u := t.Underlying().(type) {
	case *types.Basic:
		return u.Info()&(types.IsFloat|types.IsComplex) != 0
	case *types.Interface:
		return true
	case *types.Struct:
		for i := 0; i < u.NumFields(); i++ {
			if hasNaNableKey(u.Field(i).Type(), depth+1) {
				return true
			}
		}
	case *types.Array:
		return hasNaNableKey(u.Elem(), depth+1)
	}
	return false
}

// Instrument applies pass M (map-order seam) to every package matched by
// Patterns and pass Y (yield points) to files selected by YieldFile, in place.
func Instrument(o instrOpts) (*InstrStats, error) {
	st := &InstrStats{SitesPerPackage: map[string]int{}, YieldPerFile: map[string]int{}}
	pats := append([]string{}, o.Patterns...)
	pkgs, err := loadPackages(o.Dir, o.GoBin, pats)
	if err != nil {
		return nil, err
	}
	sort.Slice(pkgs, func(i, j int) bool { return pkgs[i].PkgPath < pkgs[j].PkgPath })
	for _, p := range pkgs {
		if strings.Contains(p.PkgPath, "/internal/verifsim/simhook") {
			continue
		}
		for i, f := range p.Syntax {
			fname := p.Fset.Position(f.Pos()).Filename
			rel, _ := filepath.Rel(o.Dir, fname)
			if strings.HasSuffix(fname, "_test.go") {
				continue
			}
			_ = i
			changed := false
			n := rewriteMapRanges(p, f, rel, st)
			n += rewriteReflectMapIteration(p, f, rel, st)
			if n > 0 {
				changed = true
				st.SitesPerPackage[p.PkgPath] += n
			}
			countUnseamed(p, f, rel, st)
			if o.YieldFile != nil && o.YieldFile(rel) {
				y := insertYields(p, f, rel, st)
				if y > 0 {
					changed = true
					st.YieldPerFile[rel] = y
				}
			}
			if !changed {
				continue
			}
			astutil.AddNamedImport(p.Fset, f, "simhook", hookImportPath)
			var buf bytes.Buffer
			if err := format.Node(&buf, p.Fset, f); err != nil {
				return nil, fmt.Errorf("format %s: %v", rel, err)
			}
			if err := os.WriteFile(fname, buf.Bytes(), 0o644); err != nil {
				return nil, err
			}
			st.Files++
		}
	}
	return st, nil
}

var iterCounter int

func rewriteMapRanges(p *packages.Package, f *ast.File, rel string, st *InstrStats) int {
	n := 0
	astutil.Apply(f, nil, func(c *astutil.Cursor) bool {
		rs, ok := c.Node().(*ast.RangeStmt)
		if !ok {
			return true
		}
		t := p.TypesInfo.TypeOf(rs.X)
		if t == nil {
			return true
		}
		mt, ok := t.Underlying().(*types.Map)
		if !ok {
			if _, isTP := t.(*types.TypeParam); isTP {
				st.MapRangeSkipped++
				st.SkippedWhy = append(st.SkippedWhy, fmt.Sprintf("%s:%d type-parameter range", rel, p.Fset.Position(rs.Pos()).Line))
			}
			return true
		}
		line := p.Fset.Position(rs.Pos()).Line
		site := fmt.Sprintf("%s:%d", rel, line)
		if hasNaNableKey(mt.Key(), 0) {
			st.MapRangeSkipped++
			st.SkippedWhy = append(st.SkippedWhy, site+" float/interface key")
			return true
		}
		iterCounter++
		itName := "simIt" + strconv.Itoa(iterCounter)
		it := ast.NewIdent(itName)
		call := &ast.CallExpr{
			Fun:  &ast.SelectorExpr{X: ast.NewIdent("simhook"), Sel: ast.NewIdent("Iter")},
			Args: []ast.Expr{rs.X, &ast.BasicLit{Kind: token.STRING, Value: strconv.Quote(site)}},
		}
		var pre []ast.Stmt
		mk := func(lhs ast.Expr, method string) {
			if lhs == nil {
				return
			}
			if id, ok := lhs.(*ast.Ident); ok && id.Name == "_" {
				return
			}
			tok := rs.Tok
			if tok == token.ILLEGAL {
				return
			}
			pre = append(pre, &ast.AssignStmt{
				Lhs: []ast.Expr{lhs},
				Tok: tok,
				Rhs: []ast.Expr{&ast.CallExpr{Fun: &ast.SelectorExpr{X: ast.NewIdent(itName), Sel: ast.NewIdent(method)}}},
			})
		}
		mk(rs.Key, "Key")
		mk(rs.Value, "Val")
		body := &ast.BlockStmt{Lbrace: rs.Body.Lbrace, Rbrace: rs.Body.Rbrace}
		body.List = append(pre, rs.Body.List...)
		fs := &ast.ForStmt{
			For:  rs.For,
			Init: &ast.AssignStmt{Lhs: []ast.Expr{it}, Tok: token.DEFINE, Rhs: []ast.Expr{call}},
			Cond: &ast.CallExpr{Fun: &ast.SelectorExpr{X: ast.NewIdent(itName), Sel: ast.NewIdent("Next")}},
			Body: body,
		}
		c.Replace(fs)
		n++
		st.MapRangeSites++
		return true
	})
	return n
}

// rewriteReflectMapIteration puts reflect.Value.MapKeys and MapRange under the
// order seam: v.MapKeys() -> simhook.ReflectMapKeys(v, site), v.MapRange() ->
// simhook.ReflectMapRange(v, site).
func rewriteReflectMapIteration(p *packages.Package, f *ast.File, rel string, st *InstrStats) int {
	n := 0
	astutil.Apply(f, nil, func(c *astutil.Cursor) bool {
		call, ok := c.Node().(*ast.CallExpr)
		if !ok || len(call.Args) != 0 {
			return true
		}
		sel, ok := call.Fun.(*ast.SelectorExpr)
		if !ok || (sel.Sel.Name != "MapKeys" && sel.Sel.Name != "MapRange") {
			return true
		}
		obj := p.TypesInfo.Uses[sel.Sel]
		if obj == nil || obj.Pkg() == nil || obj.Pkg().Path() != "reflect" {
			return true
		}
		site := fmt.Sprintf("%s:%d", rel, p.Fset.Position(call.Pos()).Line)
		c.Replace(&ast.CallExpr{
			Fun:  &ast.SelectorExpr{X: ast.NewIdent("simhook"), Sel: ast.NewIdent("Reflect" + sel.Sel.Name)},
			Args: []ast.Expr{sel.X, &ast.BasicLit{Kind: token.STRING, Value: strconv.Quote(site)}},
		})
		n++
		st.ReflectMapSites++
		return true
	})
	return n
}

func countUnseamed(p *packages.Package, f *ast.File, rel string, st *InstrStats) {
	ast.Inspect(f, func(n ast.Node) bool {
		call, ok := n.(*ast.CallExpr)
		if !ok {
			return true
		}
		sel, ok := call.Fun.(*ast.SelectorExpr)
		if !ok {
			return true
		}
		name := sel.Sel.Name
		hit := false
		if obj := p.TypesInfo.Uses[sel.Sel]; obj != nil && obj.Pkg() != nil {
			switch obj.Pkg().Path() {
			case "maps", "golang.org/x/exp/maps":
				hit = name == "Keys" || name == "Values" || name == "All"
			}
		}
		if hit {
			st.UnseamedMapIter++
			st.UnseamedWhere = append(st.UnseamedWhere, fmt.Sprintf("%s:%d %s", rel, p.Fset.Position(call.Pos()).Line, name))
		}
		return true
	})
}
