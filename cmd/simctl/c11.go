package main

import (
	"fmt"
	"os"
	"path/filepath"
	"strings"
)

// buildEngB applies pass M and pass Y and builds engine B with the race
// detector. Returns the binary and the environment its workers need.
func (p *Pipeline) buildEngB(variant string) (string, []string) {
	p.timed("instrument", func() {
		st, err := Instrument(instrOpts{Dir: p.Src, Patterns: mapSeamPkgs, GoBin: "go", YieldFile: func(rel string) bool {
			if strings.HasSuffix(rel, "_test.go") {
				return false
			}
			return strings.HasSuffix(rel, ".pulsar.go") || strings.HasPrefix(rel, "runtime/") || strings.HasPrefix(rel, "anyutil/")
		}})
		if err != nil {
			fail("instrumenter: %v", err)
		}
		if err := writeYieldTable(p.Src, st); err != nil {
			fail("yield table: %v", err)
		}
		p.Instr = st
	})
	out := filepath.Join(p.Bin, "engb-"+variant)
	p.timed("build_race", func() { p.goBuild("go", out, true, "./internal/verifsim/cmd/engb") })
	raceDir := filepath.Join(p.Out, "race")
	os.MkdirAll(raceDir, 0o755)
	env := []string{"GORACE=log_path=" + filepath.Join(raceDir, "r") + " halt_on_error=0 suppress_equal_stacks=0 suppress_equal_addresses=0"}
	return out, env
}

func checkTasks(p *Pipeline, scenario, engineName string) int {
	tc := tierFor(p.Tier)
	reqs := p.buildPluginAndRequests()
	variants := []string{"checked-in"}
	if tc.FreshVariant {
		variants = append(variants, "fresh")
	}
	params := "scenario=" + scenario
	ev := &evidence{Coverage: map[string]interface{}{}}
	perVariant := map[string]interface{}{}
	faults, probes := map[string]int64{}, map[string]int64{}
	var samples []interface{}
	var sims, steps, nontrivial int64
	exit := 0
	for vi, variant := range variants {
		p.setupVariant(variant, reqs, vi == 0)
		bin, env := p.buildEngB(variant)
		p.logf("[%s] pass M rewrote %d map-range sites, pass Y inserted %d yield points; searching %.0fs on %d workers (-race)", variant, p.Instr.MapRangeSites, p.Instr.YieldSites, tc.SearchBudget/float64(len(variants)), p.Workers)
		// The search runs in rounds of fresh worker processes: state that is
		// initialised lazily on first use (in generated code or runtime/) is
		// fresh again in every round, so first-use races get many chances.
		var m *merged
		budget := tc.SearchBudget / float64(len(variants))
		rounds := int(budget / 10)
		if rounds < 1 {
			rounds = 1
		}
		if rounds > 24 {
			rounds = 24
		}
		p.timed("search", func() {
			for r := 0; r < rounds; r++ {
				// every other round runs its workers on ONE processor: the tasks
				// are serialised by the scheduler anyway, and per-P structures of
				// the Go runtime (sync.Pool above all) then hand a buffer put back
				// by one task to the very next task that asks - state leaking
				// through such a pool is met far more often than with 16 Ps
				renv := env
				if r%2 == 1 {
					renv = append(append([]string{}, env...), "GOMAXPROCS=1")
				}
				mr := p.runBatch(batchSpec{Label: fmt.Sprintf("engb-%s-r%d", variant, r), Bin: bin, Workers: p.Workers, Count: 1 << 30, From: r * 1000000, Budget: budget / float64(rounds), Variant: variant, Params: params, Records: r == 0, Shard: true, Env: renv})
				if m == nil {
					m = mr
				} else {
					m.absorb(mr)
				}
				if len(m.Violations) > 0 {
					break
				}
			}
		})
		m.Stats["worker_process_rounds"] = int64(rounds)
		if len(m.Violations) > 0 {
			exit = p.handleViolations(engineName, "race", bin, m.Violations, variant, params, env, tc.MinimiseS)
		}
		det := map[string]interface{}{}
		if exit == 0 {
			p.timed("determinism_selftest", func() { det = p.detSelfTest(bin, variant, params, m.Records, tc.DetRuns, env) })
			if len(p.DetViolations) > 0 {
				exit = p.handleViolations(engineName, "race", bin, p.DetViolations, variant, params, env, tc.MinimiseS)
			}
		}
		if d := m.Stats["runs_discarded_build_mismatch"]; d*50 > int64(m.Runs) {
			p.logf("WARNING: %d of %d runs were discarded because a message could not be built as intended", d, m.Runs)
		}
		sims += m.Stats["simulations"]
		steps += m.Stats["scheduler_steps"]
		nontrivial += m.Stats["runs_with_4plus_preemptions"]
		for k, v := range m.Stats {
			if strings.HasPrefix(k, "fault_") {
				faults[k] += v
			}
			if strings.HasPrefix(k, "probe_") {
				probes[k] += v
			}
		}
		if len(samples) < 3 {
			samples = append(samples, m.Samples...)
		}
		perVariant[variant] = map[string]interface{}{"runs": m.Runs, "stats": m.Stats, "instrumentation": p.Instr, "determinism_selftest": det, "random_corpus": p.RndStats,
			"runs_per_hour": float64(m.Runs) / m.WallS * 3600, "distinct_interleavings": len(distinctResults(m)), "search_wall_s": m.WallS}
		if exit != 0 {
			break
		}
	}
	cov := ev.Coverage
	cov["evaluations"] = sims
	cov["distinct_nontrivial"] = nontrivial
	cov["samples"] = samples
	cov["scheduler_steps"] = steps
	cov["fault_kinds_fired"] = faults
	cov["probes"] = probes
	cov["variants"] = perVariant
	cov["simulated_time"] = "logical steps only: no clock or timer is involved in this property"
	if exit != 0 {
		ev.Violations = 1
	}
	fillTaskEvidence(scenario, ev)
	p.writeEvidence(ev)
	return exit
}

func distinctResults(m *merged) map[string]bool {
	d := map[string]bool{}
	for _, r := range m.Records {
		d[r.Result] = true
	}
	return d
}

func fillTaskEvidence(scenario string, ev *evidence) {
	cov := ev.Coverage
	switch scenario {
	case "readers":
		cov["rule"] = "one evaluation = one simulation: 2-6 reader tasks (real goroutines, one running at a time, released and parked through a raw-syscall pipe baton the race detector cannot see) each running 1-6 read-only operations on ONE shared generated message, interleaved at statement-granularity yield points by a tape-drawn (task, quantum) schedule, with tape-drawn map iteration order per operation; oracles: race detector, struct snapshot after every scheduling step, result == sequential reader on a private copy; distinct_nontrivial counts simulations (each its own seed) with at least 4 preemptive context switches; distinct interleavings per variant are counted by the hash of the (task, yield-site) sequence"
		cov["real_vs_stub"] = map[string]string{
			"real":  "generated code and runtime package (with inserted yield calls and the range rewrite), protobuf-go v1.34.0 (proto, protojson, prototext, anypb, impl), the Go race detector",
			"seam":  "scheduling: simhook.Yield before every statement of the generated files and of the packages runtime/ and anyutil/; map order: simhook.Iter",
			"stubs": "none",
		}
		ev.Assumptions = []string{
			"preemption happens only at yield points in this repository's code, not inside protobuf-go or the Go runtime",
			"protobuf-go's own atomics/sync.Once can order some accesses and mask a race in some schedules; the snapshot and result oracles do not depend on the race detector",
			"sampling: a clean batch is evidence, not proof",
		}
	case "pipeline":
		cov["rule"] = "one evaluation = one simulation of a producer/transport/consumer/handler pipeline under the same scheduler: frames are duplicated, reordered, delayed; receive buffers are recycled or scribbled at tape-drawn instants while handlers still hold the decoded message; producers re-use and overwrite their message after Marshal; oracles: conservation against a control decode, frame integrity, race detector, struct snapshot around read-only calls; distinct_nontrivial counts simulations with at least 4 preemptive context switches"
		cov["real_vs_stub"] = map[string]string{
			"real":  "generated code and runtime package (instrumented copies), protobuf-go v1.34.0, the Go race detector",
			"seam":  "scheduling and buffer-recycle instants: simhook.Yield / tape; map order: simhook.Iter",
			"stubs": "the transport, buffer pool and handlers are harness code by definition of the scenario",
		}
		ev.Assumptions = []string{
			"the aliasing itself is schedule-independent; the schedule decides when a recycle lands relative to reads and gives the race oracle something to see",
			"no corruption or truncation of frames is injected (what a decoder does with damaged bytes is property C06)",
			"sampling: a clean batch is evidence, not proof",
		}
	}
}

var _ = fmt.Sprint
