package main

import (
	"os/exec"
	"bytes"
	"fmt"
	"os"
	"path/filepath"
	"sort"
	"strings"
)

var mapSeamPkgs = []string{"./testpb/...", "./internal/testprotos/...", "./internal/verifsim/shapes/...", "./internal/verifsim/rnd/...", "./runtime/...", "./anyutil/..."}

// tier parameters
type tierCfg struct {
	SearchBudget  float64 // seconds of seeded search per build
	NativeBudget  float64
	DetRuns       int // run indices in the determinism self-test
	MinimiseS     float64
	Go126         bool
	FreshVariant  bool
}

func tierFor(tier string) tierCfg {
	if tier == "thorough" {
		b := envFloat("VERIF_BUDGET", 900)
		return tierCfg{SearchBudget: b, NativeBudget: b / 6, DetRuns: 240, MinimiseS: 120, Go126: true, FreshVariant: true}
	}
	b := envFloat("VERIF_BUDGET", 40)
	return tierCfg{SearchBudget: b, NativeBudget: b / 4, DetRuns: 48, MinimiseS: 45, Go126: false, FreshVariant: false}
}

// detSelfTest re-executes the first n run indices in separate processes under
// other GOMAXPROCS values and another sharding; every event-log hash must be
// identical to the reference records.
func (p *Pipeline) detSelfTest(bin, variant, params string, ref map[int]RunRecord, n int, extraEnv []string) map[string]interface{} {
	checked, mismatches := 0, 0
	var firstMismatch string
	var differing []int
	for _, cfg := range []struct {
		gmp     string
		workers int
	}{{"1", 3}, {"4", 5}, {"16", 2}} {
		env := append([]string{"GOMAXPROCS=" + cfg.gmp}, extraEnv...)
		per := (n + cfg.workers - 1) / cfg.workers
		m := p.runBatch(batchSpec{Label: "det-" + cfg.gmp, Bin: bin, Workers: cfg.workers, Count: per, Budget: 0, Variant: variant, Params: params, Records: true, Env: env, Shard: true})
		for run, rec := range m.Records {
			r0, ok := ref[run]
			if !ok {
				continue
			}
			checked++
			if r0.LogHash != rec.LogHash {
				mismatches++
				differing = append(differing, run)
				if firstMismatch == "" {
					firstMismatch = fmt.Sprintf("run %d: %s (reference) vs %s (GOMAXPROCS=%s, %d workers)", run, r0.LogHash, rec.LogHash, cfg.gmp, cfg.workers)
				}
			}
		}
		if len(m.Violations) > 0 {
			// a violation in a re-execution that the reference batch did not
			// report for the same run index: the oracle fired, so it is
			// reported as a violation (the code under test behaves differently
			// from process to process - its replay may not be exact, and says so)
			p.DetViolations = append(p.DetViolations, m.Violations...)
		}
	}
	if len(p.DetViolations) > 0 {
		return map[string]interface{}{"runs_reexecuted": checked, "mismatches": mismatches, "violations_in_reexecutions": len(p.DetViolations)}
	}
	historyDependent := 0
	if mismatches > 0 {
		// Whose nondeterminism is it? A run that differs from its reference
		// because the code under test keeps state across calls (a lazily built
		// table, a cache, a pool: the event log then depends on what the process
		// did before) is still a pure function of the tape when it is the FIRST
		// thing a process does. Every differing run (up to eight) is executed
		// alone in two fresh processes under different GOMAXPROCS: equal logs
		// mean the simulator is deterministic and the difference comes from
		// process history; unequal logs are the simulator's own problem.
		sort.Ints(differing)
		seen := map[int]bool{}
		probed := 0
		for _, run := range differing {
			if seen[run] || probed >= 8 {
				continue
			}
			seen[run] = true
			probed++
			var hashes []string
			for _, gmp := range []string{"1", "16"} {
				env := append([]string{"GOMAXPROCS=" + gmp}, extraEnv...)
				m := p.runBatch(batchSpec{Label: fmt.Sprintf("det-alone-%d-%s", run, gmp), Bin: bin, Workers: 1, Count: 1, From: run, Budget: 0, Variant: variant, Params: params, Records: true, Env: env})
				if len(m.Violations) > 0 {
					p.DetViolations = append(p.DetViolations, m.Violations...)
				}
				if rec, ok := m.Records[run]; ok {
					hashes = append(hashes, rec.LogHash)
				}
			}
			if len(hashes) != 2 || hashes[0] != hashes[1] {
				if treeModified() {
					// The tree under test differs from the commit it was checked
					// out from. On the unchanged tree the simulator is shown to be
					// deterministic (this same test passes there), so the source
					// is in the change: something the seams do not own (sync.Pool
					// hands buffers out per processor and, under the race
					// detector, drops one Put in four at random; goroutines; a
					// clock). No oracle fired: the property held on everything
					// explored, replay files of this tree may not be exact.
					p.logf("WARNING: the code under test is not deterministic under the simulator's seams (run %d executed alone in two fresh processes gave %v; %d of %d re-executed runs differ). Not a violation: no oracle fired. Replays on this tree may not be exact.", run, hashes, mismatches, checked)
					return map[string]interface{}{"runs_reexecuted": checked, "mismatches": mismatches, "code_under_test_not_deterministic_under_the_seams": true}
				}
				fail("determinism self-test failed: %d of %d re-executed runs differ; first: %s; run %d executed alone in two fresh processes gave %v", mismatches, checked, firstMismatch, run, hashes)
			}
			historyDependent++
		}
		if len(p.DetViolations) > 0 {
			return map[string]interface{}{"runs_reexecuted": checked, "mismatches": mismatches, "violations_in_reexecutions": len(p.DetViolations)}
		}
		p.logf("determinism self-test: %d of %d re-executed runs differ from the reference batch, but each of the %d probed runs is reproducible when it is the first run of a fresh process: the code under test keeps state across calls (cache, pool, lazily built table); the simulator itself is deterministic", mismatches, checked, historyDependent)
	}
	return map[string]interface{}{"runs_reexecuted": checked, "process_configurations": "GOMAXPROCS 1/4/16 with 3/5/2 workers (different sharding)", "mismatches": mismatches,
		"runs_differing_only_through_process_history_of_the_code_under_test": historyDependent}
}

// treeModified reports whether the tree under test has uncommitted changes to
// tracked files (a change under evaluation is applied to the working tree).
func treeModified() bool {
	out, err := exec.Command("git", "-C", repoDir, "status", "--porcelain", "--untracked-files=no").Output()
	return err == nil && len(bytes.TrimSpace(out)) > 0
}

// setupVariant puts the scratch module into the state of a variant:
// "checked-in" keeps the generated files as committed; "fresh" overwrites them
// with what the working-tree plugin emits. The corpus package is always
// generated by the working-tree plugin.
func (p *Pipeline) setupVariant(variant string, reqs []reqEntry, first bool) {
	if !first {
		// back to pristine (uninstrumented) sources
		p.run("/", os.Environ(), "rsync", "-a", "--checksum", p.Pristine+"/", p.Src+"/")
		p.run("/", os.Environ(), "rsync", "-a", filepath.Join(verifDir, "sim")+"/", filepath.Join(p.Src, "internal", "verifsim")+"/")
	}
	for _, r := range reqs {
		if strings.HasPrefix(r.Name, "rnd") || r.Name == "cosmos" {
			continue
		}
		if r.Name == "shapes" || variant == "fresh" {
			files := p.generate(r)
			p.logf("[%s] working-tree plugin generated %v", variant, files)
		}
	}
	p.installRandomCorpus(reqs)
}

// buildEngA builds engine A. kind "sim" applies pass M in place first, so it
// must be built after the native kinds of the same variant.
func (p *Pipeline) buildEngA(variant, kind string) string {
	out := filepath.Join(p.Bin, "enga-"+kind+"-"+variant)
	switch kind {
	case "native":
		p.timed("build_native", func() { p.goBuild("go", out, false, "./internal/verifsim/cmd/enga") })
	case "native126":
		p.timed("build_native_go126", func() { p.goBuild("go1.26.8", out, false, "./internal/verifsim/cmd/enga") })
	case "sim":
		p.timed("instrument", func() {
			st, err := Instrument(instrOpts{Dir: p.Src, Patterns: mapSeamPkgs, GoBin: "go"})
			if err != nil {
				fail("instrumenter: %v", err)
			}
			p.Instr = st
		})
		p.timed("build_sim", func() { p.goBuild("go", out, false, "./internal/verifsim/cmd/enga") })
	default:
		fail("unknown engine A build kind %q", kind)
	}
	return out
}

func checkC05(p *Pipeline) int {
	tc := tierFor(p.Tier)
	reqs := p.buildPluginAndRequests()
	variants := []string{"checked-in"}
	if tc.FreshVariant {
		variants = append(variants, "fresh")
	}
	ev := &evidence{Coverage: map[string]interface{}{}}
	totalRuns, totalEnc, nontrivial := 0, int64(0), int64(0)
	var samples []interface{}
	perVariant := map[string]interface{}{}
	faults := map[string]int64{}
	probes := map[string]int64{}
	exit := 0
	for vi, variant := range variants {
		p.setupVariant(variant, reqs, vi == 0)
		native := p.buildEngA(variant, "native")
		native126 := ""
		if tc.Go126 {
			native126 = p.buildEngA(variant, "native126")
		}
		sim := p.buildEngA(variant, "sim")
		instrA := p.Instr
		p.logf("[%s] pass M rewrote %d map-range sites (%d left, %d unseamed uses); searching %.0fs on %d workers", variant, instrA.MapRangeSites, instrA.MapRangeSkipped, instrA.UnseamedMapIter, tc.SearchBudget, p.Workers)

		budget := tc.SearchBudget / float64(len(variants))
		var m *merged
		p.timed("search", func() {
			m = p.runBatch(batchSpec{Label: "sim-" + variant, Bin: sim, Workers: p.Workers, Count: 1 << 30, Budget: budget, Variant: variant, Records: true, Shard: true})
		})
		if len(m.Violations) > 0 {
			if c := p.handleViolations("A-maporder", "sim", sim, m.Violations, variant, "", nil, tc.MinimiseS); c != 0 {
				exit = c
			}
		}
		det := map[string]interface{}{}
		if exit == 0 {
			p.timed("determinism_selftest", func() { det = p.detSelfTest(sim, variant, "", m.Records, tc.DetRuns, nil) })
			if len(p.DetViolations) > 0 {
				exit = p.handleViolations("A-maporder", "sim", sim, p.DetViolations, variant, "", nil, tc.MinimiseS)
			}
		}
		// native legs: same tapes, Go's own randomised iteration
		nativeInfo := map[string]interface{}{}
		for _, nb := range []struct{ name, bin string }{{"native", native}, {"native126", native126}} {
			if nb.bin == "" || exit != 0 {
				continue
			}
			var nm *merged
			p.timed("native_search", func() {
				nm = p.runBatch(batchSpec{Label: nb.name + "-" + variant, Bin: nb.bin, Workers: p.Workers, Count: 1 << 30, Budget: tc.NativeBudget / float64(len(variants)), Variant: variant, Params: "native=1", Records: true, Shard: true})
			})
			cross, crossBad := 0, 0
			var bad []int
			for run, rec := range nm.Records {
				if r0, ok := m.Records[run]; ok {
					cross++
					if r0.Result != rec.Result {
						crossBad++
						bad = append(bad, run)
					}
				}
			}
			nativeInfo[nb.name] = map[string]interface{}{"runs": nm.Runs, "encodings": nm.Stats["encodings"], "golden_compared_with_simulated_run": cross, "golden_mismatches": crossBad, "go_version": nm.GoVersion}
			if len(nm.Violations) > 0 {
				if c := p.handleViolations("A-maporder", nb.name, nb.bin, nm.Violations, variant, "native=1", nil, tc.MinimiseS); c != 0 {
					exit = c
				}
			} else if crossBad > 0 {
				sort.Ints(bad)
				// the same tape gave different deterministic bytes natively and
				// under the simulator: report through the simulated binary's
				// replay (which shows the value) with the native golden attached
				fv := FoundViolation{Run: bad[0], Seed: p.Seed, Violation: &Violation{Class: "C05:native-golden-differs-from-simulated-golden",
					Detail: map[string]interface{}{"run": bad[0], "simulated_result": m.Records[bad[0]].Result, "native_result": nm.Records[bad[0]].Result, "native_build": nb.name}}}
				path := filepath.Join(verifDir, "replays", fmt.Sprintf("C05-%d-%d-native.json", p.Seed, bad[0]))
				writeJSONFile(path, &replayFile{Property: "C05", Engine: "A-maporder", Build: nb.name, Variant: variant, Params: "native=1", Tier: p.Tier, Seed: p.Seed, Run: bad[0], ExactReplay: false, Violation: fv.Violation,
					HowToReplay: "re-run the check with the same VERIF_SEED; the native leg is probabilistic"})
				fmt.Printf("VIOLATION property=C05 replay=%s\n", path)
				exit = 1
			}
		}
		// concurrent leg: equal messages marshalled deterministically by several
		// goroutines at once under the deterministic scheduler (engine B binary)
		concInfo := map[string]interface{}{}
		if exit == 0 {
			// the in-place instrumentation of engine A's sim build is extended with yields
			engb, env := p.buildEngB(variant)
			var cm *merged
			p.timed("concurrent_leg", func() {
				cm = p.runBatch(batchSpec{Label: "detmarshal-" + variant, Bin: engb, Workers: p.Workers, Count: 1 << 30, Budget: tc.NativeBudget / float64(len(variants)), Variant: variant, Params: "scenario=detmarshal", Records: true, Shard: true, Env: env})
			})
			concInfo = map[string]interface{}{"simulations": cm.Stats["simulations"], "concurrent_encodings": cm.Stats["concurrent_encodings"], "context_switches": cm.Stats["fault_context_switches"], "stats": cm.Stats}
			faults["fault_concurrent_marshal_context_switches"] += cm.Stats["fault_context_switches"]
			totalEnc += cm.Stats["concurrent_encodings"]
			if len(cm.Violations) > 0 {
				exit = p.handleViolations("B-tasks/detmarshal", "race-detmarshal", engb, cm.Violations, variant, "scenario=detmarshal", env, tc.MinimiseS)
			}
		}
		totalRuns += m.Runs
		totalEnc += m.Stats["encodings"]
		nontrivial += m.Stats["values_nontrivial"]
		if len(samples) < 4 {
			samples = append(samples, m.Samples...)
		}
		for k, v := range m.Stats {
			switch {
			case len(k) > 6 && k[:6] == "fault_":
				faults[k] += v
			case len(k) > 6 && k[:6] == "probe_":
				probes[k] += v
			}
		}
		var sites interface{}
		if len(m.Extra) > 0 {
			sites = m.Extra[0]["sites"]
		}
		perVariant[variant] = map[string]interface{}{
			"runs": m.Runs, "stats": m.Stats, "instrumentation": instrA, "determinism_selftest": det, "native_legs": nativeInfo, "concurrent_leg": concInfo, "random_corpus": p.RndStats,
			"runs_per_hour": float64(m.Runs) / m.WallS * 3600, "search_wall_s": m.WallS, "sites_worker0": sites,
		}
		if d := m.Stats["history_discarded_build_error"] + m.Stats["history_discarded_readback_mismatch"]; d*50 > m.Stats["values"] {
			p.logf("WARNING: %d construction histories were discarded (build error or read-back mismatch) in %d runs: part of the workload is not reaching the oracle", d, m.Runs)
		}
		for _, z := range []string{"probe_multimap_depth1", "probe_multimap_depth2", "probe_multimap_in_list_elem", "probe_multimap_in_map_value", "probe_multimap_in_oneof_member", "fault_map_order_permuted_encodings", "fault_mutate_and_revert_between_encodings"} {
			if m.Stats[z] == 0 {
				p.logf("WARNING: probe %s stuck at zero in variant %s", z, variant)
			}
		}
		if exit != 0 {
			break
		}
	}
	cov := ev.Coverage
	cov["evaluations"] = totalEnc
	cov["distinct_nontrivial"] = nontrivial
	cov["rule"] = "one evaluation = one deterministic encoding compared with the first encoding of the same abstract value; one run = one tape-drawn abstract value x 2-6 construction histories x 2-8 encodings each under a tape-drawn map-iteration order at every range site; distinct_nontrivial counts runs (each has its own seed, hence its own value) whose value holds at least one map with >=2 entries, the only values on which iteration order can matter"
	cov["samples"] = samples
	cov["runs"] = totalRuns
	cov["fault_kinds_fired"] = faults
	cov["probes"] = probes
	cov["variants"] = perVariant
	cov["real_vs_stub"] = map[string]string{
		"real":  "generated code (checked-in and freshly generated), runtime package, protobuf-go v1.34.0 (proto, dynamicpb, impl), the working-tree plugin binary that generated the corpus package",
		"seam":  "every `for range` over a Go map in testpb, internal/testprotos, runtime and the corpus package is rewritten (scratch copy only) to simhook.Iter, which orders keys as the tape says",
		"stubs": "none",
	}
	cov["simulated_time"] = "not applicable: no clock or timer is involved in this property"
	ev.Assumptions = []string{
		"map iteration hidden inside reflect/maps/dependencies is not under the seam (counted as unseamed_map_iteration_uses; native legs cover it probabilistically)",
		"a construction history whose struct read-back differs from the abstract value is discarded and counted, not reported (correctness of Set/Unmarshal/Clone/Merge belongs to other properties)",
		"sampling: a clean batch is evidence, not proof",
	}
	if exit != 0 {
		ev.Violations = 1
	}
	p.writeEvidence(ev)
	return exit
}
