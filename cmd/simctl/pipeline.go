package main

import (
	"bytes"
	"encoding/json"
	"fmt"
	"os"
	"os/exec"
	"path/filepath"
	"strings"
	"syscall"
	"time"
)

const modPath = "github.com/cosmos/cosmos-proto"

// repoDir is the tree under test: /repo's current working tree. (VERIF_REPO
// exists only so that tools/selftest.sh can point the same checks at scratch
// worktrees carrying a seeded change; no registered command sets it.)
var repoDir = func() string {
	if d := os.Getenv("VERIF_REPO"); d != "" {
		return d
	}
	return "/repo"
}()

// verifDir is where the harness sources, evidence and replay files live: the
// directory of the check script (normally /verif; a snapshot under vp run).
var verifDir = func() string {
	if d := os.Getenv("VERIF_DIR"); d != "" {
		return d
	}
	return "/verif"
}()

// harnessError is trouble of the machinery itself: exit 2, never VIOLATION.
type harnessError struct{ msg string }

func (e harnessError) Error() string { return e.msg }

func fail(format string, a ...interface{}) {
	panic(harnessError{fmt.Sprintf(format, a...)})
}

type Pipeline struct {
	DetViolations []FoundViolation // violations met while re-executing runs in the determinism self-test
	Prop    string
	Tier    string
	Seed    uint64
	Root    string // scratch root
	Src     string // scratch copy of the repository (module root)
	Pristine string // untouched copy of /repo's working tree taken at start
	Bin     string
	Req     string
	Out     string
	Keep    bool
	lock    *os.File
	started time.Time
	Timings map[string]float64
	Instr   *InstrStats
	Workers int
	// RandomSets is the number of random corpus schema sets generated with the
	// working-tree plugin and compiled into the codec engines.
	RandomSets int
	RndStats   map[string]interface{}
}

func goEnv(gobin string) []string {
	env := []string{}
	for _, e := range os.Environ() {
		if strings.HasPrefix(e, "GOFLAGS=") || strings.HasPrefix(e, "GOPROXY=") || strings.HasPrefix(e, "GOSUMDB=") ||
			strings.HasPrefix(e, "GOTOOLCHAIN=") || strings.HasPrefix(e, "GOMAXPROCS=") || strings.HasPrefix(e, "GODEBUG=") || strings.HasPrefix(e, "GORACE=") {
			continue
		}
		env = append(env, e)
	}
	return append(env, "GOFLAGS=-mod=mod", "GOPROXY=off", "GOSUMDB=off", "GOTOOLCHAIN=local", "CGO_ENABLED=1")
}

func (p *Pipeline) logf(format string, a ...interface{}) {
	fmt.Fprintf(os.Stderr, "[simctl %6.1fs] %s\n", time.Since(p.started).Seconds(), fmt.Sprintf(format, a...))
}

func (p *Pipeline) timed(name string, f func()) {
	t0 := time.Now()
	f()
	p.Timings[name] += time.Since(t0).Seconds()
}

// run executes a command; a failure is harness trouble.
func (p *Pipeline) run(dir string, env []string, name string, args ...string) string {
	out, err := p.tryRun(dir, env, name, args...)
	if err != nil {
		fail("command failed: %s %s (in %s): %v\n%s", name, strings.Join(args, " "), dir, err, tail(out, 6000))
	}
	return out
}

func (p *Pipeline) tryRun(dir string, env []string, name string, args ...string) (string, error) {
	cmd := exec.Command(name, args...)
	cmd.Dir = dir
	cmd.Env = env
	var buf bytes.Buffer
	cmd.Stdout = &buf
	cmd.Stderr = &buf
	err := cmd.Run()
	return buf.String(), err
}

func tail(s string, n int) string {
	if len(s) > n {
		return "...\n" + s[len(s)-n:]
	}
	return s
}

func newPipeline(prop, tier string, seed uint64) *Pipeline {
	p := &Pipeline{Prop: prop, Tier: tier, Seed: seed, started: time.Now(), Timings: map[string]float64{}, Workers: 16}
	base := os.Getenv("VERIF_SCRATCH")
	if base == "" {
		base = "/var/tmp/verifsim"
	}
	if err := os.MkdirAll(base, 0o755); err != nil {
		fail("scratch base: %v", err)
	}
	// A fixed directory per property keeps Go's build cache effective across
	// runs; a lock makes concurrent invocations fall back to a private one.
	name := prop + "-" + tier
	lf, err := os.OpenFile(filepath.Join(base, name+".lock"), os.O_CREATE|os.O_RDWR, 0o644)
	if err == nil {
		if syscall.Flock(int(lf.Fd()), syscall.LOCK_EX|syscall.LOCK_NB) != nil {
			lf.Close()
			lf = nil
			name = fmt.Sprintf("%s-%d", name, os.Getpid())
		}
	}
	p.lock = lf
	p.Root = filepath.Join(base, name)
	p.Src = filepath.Join(p.Root, "src")
	p.Bin = filepath.Join(p.Root, "bin")
	p.Req = filepath.Join(p.Root, "req")
	p.Out = filepath.Join(p.Root, "out")
	p.Keep = os.Getenv("VERIF_KEEP") != ""
	if prop != "C13" {
		p.RandomSets = 2
		if tier == "thorough" {
			p.RandomSets = 8
		}
	}
	return p
}

func (p *Pipeline) cleanup() {
	if p.Keep {
		p.logf("keeping scratch %s", p.Root)
	} else {
		os.RemoveAll(p.Root)
	}
	if p.lock != nil {
		p.lock.Close()
	}
}

// prepare copies /repo's current working tree and the harness sources.
func (p *Pipeline) prepare() {
	p.timed("prepare", func() {
		os.RemoveAll(p.Root)
		for _, d := range []string{p.Src, p.Bin, p.Req, p.Out} {
			if err := os.MkdirAll(d, 0o755); err != nil {
				fail("mkdir: %v", err)
			}
		}
		// /repo's working tree is read exactly once per check
		p.Pristine = filepath.Join(p.Root, "pristine")
		p.run("/", os.Environ(), "rsync", "-a", "--exclude", ".git", repoDir+"/", p.Pristine+"/")
		p.run("/", os.Environ(), "rsync", "-a", p.Pristine+"/", p.Src+"/")
		dst := filepath.Join(p.Src, "internal", "verifsim")
		if _, err := os.Stat(dst); err == nil {
			fail("%s already exists in the repository under test", dst)
		}
		p.run("/", os.Environ(), "rsync", "-a", filepath.Join(verifDir, "sim")+"/", dst+"/")
	})
}

func (p *Pipeline) goBuild(gobin, out string, race bool, pkg string, extra ...string) {
	args := []string{"build", "-o", out}
	if race {
		args = append(args, "-race")
	}
	args = append(args, extra...)
	args = append(args, pkg)
	p.run(p.Src, goEnv(gobin), gobin, args...)
}

type reqEntry struct {
	Name      string   `json:"name"`
	File      string   `json:"file"`
	Generate  []string `json:"files_to_generate"`
	Parameter string   `json:"parameter"`
	GoPkgDir  string   `json:"go_pkg_dir"`
	Packages  []struct {
		ImportPath string   `json:"import_path"`
		Messages   []string `json:"messages"`
	} `json:"packages,omitempty"`
}

// buildPluginAndRequests builds the working-tree plugin and writes the
// CodeGeneratorRequests (checked-in packages from their registered
// descriptors, corpus schemas from code).
func (p *Pipeline) buildPluginAndRequests() []reqEntry {
	var idx []reqEntry
	p.timed("build_plugin", func() {
		p.goBuild("go", filepath.Join(p.Bin, "plugin"), false, "./cmd/protoc-gen-go-pulsar")
	})
	p.timed("reqgen", func() {
		p.goBuild("go", filepath.Join(p.Bin, "reqgen"), false, "./internal/verifsim/cmd/reqgen")
		p.run(p.Src, os.Environ(), filepath.Join(p.Bin, "reqgen"), "-out", p.Req, "-random", fmt.Sprint(p.RandomSets), "-seed", fmt.Sprint(p.Seed))
		b, err := os.ReadFile(filepath.Join(p.Req, "index.json"))
		if err != nil {
			fail("reqgen index: %v", err)
		}
		if err := json.Unmarshal(b, &idx); err != nil {
			fail("reqgen index: %v", err)
		}
	})
	return idx
}

// generate runs the working-tree plugin binary on a request and writes the
// files it answers with into the scratch module.
func (p *Pipeline) generate(e reqEntry) []string {
	var written []string
	p.timed("generate_"+e.Name, func() {
		respFile := filepath.Join(p.Out, e.Name+".resp")
		cmd := exec.Command(filepath.Join(p.Bin, "plugin"))
		in, err := os.Open(e.File)
		if err != nil {
			fail("%v", err)
		}
		defer in.Close()
		cmd.Stdin = in
		var out, errb bytes.Buffer
		cmd.Stdout = &out
		cmd.Stderr = &errb
		cmd.Dir = p.Root
		if err := cmd.Run(); err != nil {
			fail("the working-tree plugin failed on the %s request (cannot build the simulation corpus; whether the generator accepts a schema is property C12, not decided here): %v\n%s", e.Name, err, tail(errb.String(), 3000))
		}
		os.WriteFile(respFile, out.Bytes(), 0o644)
		files, perr := decodeResponse(out.Bytes())
		if perr != nil {
			fail("plugin response for %s: %v", e.Name, perr)
		}
		for _, f := range files {
			rel := strings.TrimPrefix(f.Name, modPath+"/")
			if e.GoPkgDir != "" && !strings.Contains(rel, "/") {
				rel = filepath.Join(e.GoPkgDir, rel)
			}
			full := filepath.Join(p.Src, rel)
			os.MkdirAll(filepath.Dir(full), 0o755)
			if err := os.WriteFile(full, []byte(f.Content), 0o644); err != nil {
				fail("%v", err)
			}
			written = append(written, rel)
		}
	})
	return written
}

// installRandomCorpus generates the random corpus packages with the
// working-tree plugin, keeps those that compile (whether generated code
// compiles is property C12, not decided here; failures are counted) and
// writes the rndcorpus package that lists their message types.
func (p *Pipeline) installRandomCorpus(reqs []reqEntry) {
	var imports, lits []string
	okPkgs, badPkgs, nMsgs := 0, 0, 0
	var bad []string
	p.timed("random_corpus", func() {
		// generate everything first (packages of one set import each other),
		// then compile package by package
		failedGen := map[string]bool{}
		for _, r := range reqs {
			if !strings.HasPrefix(r.Name, "rnd") {
				continue
			}
			func() {
				defer func() {
					if e := recover(); e != nil {
						if he, ok := e.(harnessError); ok {
							failedGen[r.Name] = true
							badPkgs += len(r.Packages)
							bad = append(bad, r.Name+": "+tail(he.msg, 300))
							return
						}
						panic(e)
					}
				}()
				p.generate(r)
			}()
		}
		for _, r := range reqs {
			if !strings.HasPrefix(r.Name, "rnd") || failedGen[r.Name] {
				continue
			}
			for _, pk := range r.Packages {
				rel := "./" + strings.TrimPrefix(pk.ImportPath, modPath+"/")
				if out, err := p.tryRun(p.Src, goEnv("go"), "go", "build", rel); err != nil {
					badPkgs++
					bad = append(bad, pk.ImportPath+": "+tail(out, 300))
					// keep it out of the instrumenter's and the engines' way
					os.RemoveAll(filepath.Join(p.Src, strings.TrimPrefix(pk.ImportPath, modPath+"/")))
					continue
				}
				okPkgs++
				alias := fmt.Sprintf("rp%d", len(imports))
				imports = append(imports, fmt.Sprintf("\t%s %q", alias, pk.ImportPath))
				for _, m := range pk.Messages {
					lits = append(lits, fmt.Sprintf("\t\t&%s.%s{},", alias, m))
					nMsgs++
				}
			}
		}
		src := "// Code generated by simctl. DO NOT EDIT.\npackage rndcorpus\n\nimport (\n\t\"google.golang.org/protobuf/proto\"\n" + strings.Join(imports, "\n") + "\n)\n\nvar Messages = []proto.Message{\n" + strings.Join(lits, "\n") + "\n}\n"
		if len(lits) == 0 {
			src = "package rndcorpus\n\nimport \"google.golang.org/protobuf/proto\"\n\nvar Messages []proto.Message\n"
		}
		if err := os.WriteFile(filepath.Join(p.Src, "internal/verifsim/rndcorpus/corpus.go"), []byte(src), 0o644); err != nil {
			fail("%v", err)
		}
	})
	p.RndStats = map[string]interface{}{"random_schema_sets": p.RandomSets, "packages_compiled": okPkgs, "packages_skipped_generated_code_does_not_compile_or_plugin_failed": badPkgs, "message_types": nMsgs, "skipped": bad}
	p.logf("random corpus: %d packages compiled (%d message types), %d skipped", okPkgs, nMsgs, badPkgs)
}
