package main

import (
	"fmt"
	"os"
	"path/filepath"
	"regexp"
	"strings"
)

var genSeamPkgs = []string{"./cmd/...", "./generator/...", "./features/...", "./internal/verifsim/pluginmain/..."}

// installPluginMain copies the plugin's main package into an importable
// package (package main -> pluginmain, func main -> Main); nothing else is
// changed, so flag parsing, rewriteMessageField and generateAllFiles are the
// real code.
func (p *Pipeline) installPluginMain() {
	src := filepath.Join(p.Src, "cmd", "protoc-gen-go-pulsar")
	dst := filepath.Join(p.Src, "internal", "verifsim", "pluginmain")
	os.MkdirAll(dst, 0o755)
	ents, err := os.ReadDir(src)
	if err != nil {
		fail("plugin main package: %v", err)
	}
	pkgRe := regexp.MustCompile(`(?m)^package main\b`)
	mainRe := regexp.MustCompile(`(?m)^func main\(\)`)
	n, mains := 0, 0
	for _, e := range ents {
		if e.IsDir() || !strings.HasSuffix(e.Name(), ".go") || strings.HasSuffix(e.Name(), "_test.go") {
			continue
		}
		b, err := os.ReadFile(filepath.Join(src, e.Name()))
		if err != nil {
			fail("%v", err)
		}
		s := pkgRe.ReplaceAllString(string(b), "package pluginmain")
		if mainRe.MatchString(s) {
			mains++
			s = mainRe.ReplaceAllString(s, "func Main()")
		}
		if err := os.WriteFile(filepath.Join(dst, e.Name()), []byte(s), 0o644); err != nil {
			fail("%v", err)
		}
		n++
	}
	if n == 0 || mains != 1 {
		fail("plugin main package: %d files, %d main functions", n, mains)
	}
}

func (p *Pipeline) buildEngC() (parent, child string, params string) {
	p.installPluginMain()
	p.timed("instrument", func() {
		st, err := Instrument(instrOpts{Dir: p.Src, Patterns: genSeamPkgs, GoBin: "go"})
		if err != nil {
			fail("instrumenter: %v", err)
		}
		p.Instr = st
	})
	child = filepath.Join(p.Bin, "engcchild.test")
	p.timed("build_child_go126", func() {
		p.run(p.Src, goEnv("go1.26.8"), "go1.26.8", "test", "-c", "-vet=off", "-o", child, "./internal/verifsim/engcchild")
	})
	parent = filepath.Join(p.Bin, "engc")
	p.timed("build_parent", func() { p.goBuild("go", parent, false, "./internal/verifsim/cmd/engc") })
	work := filepath.Join(p.Root, "work")
	os.MkdirAll(work, 0o755)
	params = fmt.Sprintf("child=%s,native=%s,reqdir=%s,work=%s", child, filepath.Join(p.Bin, "plugin"), p.Req, work)
	return
}

func checkC13(p *Pipeline) int {
	tc := tierFor(p.Tier)
	p.buildPluginAndRequests()
	parent, _, params := p.buildEngC()
	p.logf("pass M rewrote %d map-range sites in the generator packages (%d left, %d unseamed uses); searching %.0fs on %d workers",
		p.Instr.MapRangeSites, p.Instr.MapRangeSkipped, p.Instr.UnseamedMapIter, tc.SearchBudget, p.Workers)
	var m *merged
	p.timed("search", func() {
		m = p.runBatch(batchSpec{Label: "engc", Bin: parent, Workers: p.Workers, Count: 1 << 30, Budget: tc.SearchBudget, Variant: "working-tree", Params: params, Records: true, Shard: true})
	})
	exit := 0
	if len(m.Violations) > 0 {
		exit = p.handleViolations("C-gensim", "engc", parent, m.Violations, "working-tree", params, nil, tc.MinimiseS)
	}
	det := map[string]interface{}{}
	if exit == 0 {
		n := tc.DetRuns / 4
		p.timed("determinism_selftest", func() { det = p.detSelfTest(parent, "working-tree", params, m.Records, n, nil) })
		if len(p.DetViolations) > 0 {
			exit = p.handleViolations("C-gensim", "engc", parent, p.DetViolations, "working-tree", params, nil, tc.MinimiseS)
		}
	}
	faults, probes := map[string]int64{}, map[string]int64{}
	for k, v := range m.Stats {
		if strings.HasPrefix(k, "fault_") {
			faults[k] = v
		}
		if strings.HasPrefix(k, "probe_") {
			probes[k] = v
		}
	}
	for _, z := range []string{"fault_generator_map_order_permuted", "fault_clock_jump", "fault_environment_changed", "fault_cwd_changed", "fault_files_to_generate_permuted", "fault_subset_of_cogenerated_files", "fault_proto_file_topological_reorder", "fault_native_fresh_process", "generator_map_range_visits_2plus_keys"} {
		if m.Stats[z] == 0 {
			p.logf("WARNING: probe %s stuck at zero", z)
		}
	}
	ev := &evidence{Coverage: map[string]interface{}{}}
	cov := ev.Coverage
	cov["evaluations"] = m.Stats["plugin_invocations"]
	cov["distinct_nontrivial"] = m.Stats["requests_answered_with_files"]
	cov["rule"] = "one evaluation = one invocation of the plugin in a fresh process (simulated leg: real main function in a synctest bubble with tape-drawn clock jump, generator map-iteration order, environment, cwd, argv0; native leg: the real binary); one run = one request (checked-in descriptor sets, the corpus schema, or a tape-drawn random multi-file schema set with a tape-drawn parameter string) x 3-7 variants incl. permutations and subsets of files_to_generate and topological re-orderings of proto_file; distinct_nontrivial counts runs (each its own seed and hence its own request/variant vector) whose request was answered with at least one generated file"
	cov["samples"] = m.Samples
	cov["runs"] = m.Runs
	cov["runs_per_hour"] = float64(m.Runs) / m.WallS * 3600
	cov["simulated_seconds_covered"] = m.Stats["simulated_seconds"]
	cov["fault_kinds_fired"] = faults
	cov["probes"] = probes
	cov["stats"] = m.Stats
	cov["instrumentation"] = p.Instr
	cov["determinism_selftest"] = det
	cov["real_vs_stub"] = map[string]string{
		"real":  "the plugin's main package (copied with `package main`->importable name, `func main`->`Main`), generator/, features/**, protogen and protobuf-go v1.34.0; the native leg runs the unmodified plugin binary",
		"seam":  "range-over-map statements in cmd/, generator/, features/** rewritten (scratch copy) to simhook.Iter; clock = testing/synctest bubble (go1.26.8); environment, cwd, argv0 set per child process from the tape",
		"stubs": "none; stdin/stdout of the simulated leg are regular files prepared by the harness",
	}
	ev.Assumptions = []string{
		"map iteration inside protogen / protobuf-go (dependencies) is outside the seam; the native leg's fresh processes cover it probabilistically",
		"a plugin crash or error is compared across variants of the same request only (whether the generator accepts a schema is property C12)",
		"sampling: a clean batch is evidence, not proof",
	}
	if exit != 0 {
		ev.Violations = 1
	}
	p.writeEvidence(ev)
	return exit
}
