// simctl drives the deterministic-simulation checks: copy /repo's working
// tree to a scratch directory, regenerate with the working-tree plugin,
// instrument, build the engines, run the seeded search, minimise, write the
// replay file and evidence, clean up.
package main

import (
	"encoding/json"
	"fmt"
	"os"
	"os/exec"
	"strconv"
	"strings"
)

func envFloat(name string, def float64) float64 {
	if s := os.Getenv(name); s != "" {
		if v, err := strconv.ParseFloat(s, 64); err == nil {
			return v
		}
	}
	return def
}

func goVersionShort(gobin string) string {
	out, err := exec.Command(gobin, "env", "GOVERSION").Output()
	if err != nil {
		return gobin
	}
	return strings.TrimSpace(string(out))
}

func usage() {
	fmt.Fprintln(os.Stderr, "usage: simctl check <C05|C07|C11|C13> <quick|thorough> | simctl replay <file>")
	os.Exit(2)
}

func main() {
	if len(os.Args) < 3 {
		usage()
	}
	code := 2
	func() {
		var p *Pipeline
		defer func() {
			if p != nil {
				p.cleanup()
			}
			if r := recover(); r != nil {
				if he, ok := r.(harnessError); ok {
					fmt.Fprintln(os.Stderr, "HARNESS-ERROR (exit 2, not a violation):", he.msg)
					code = 2
					return
				}
				panic(r)
			}
		}()
		switch os.Args[1] {
		case "check":
			if len(os.Args) < 4 {
				usage()
			}
			prop, tier := os.Args[2], os.Args[3]
			if t := os.Getenv("VERIF_TIER"); t == "quick" || t == "thorough" {
				tier = t
			}
			seed := uint64(1)
			if s := os.Getenv("VERIF_SEED"); s != "" {
				if v, err := strconv.ParseUint(s, 10, 64); err == nil {
					seed = v
				} else if v, err := strconv.ParseInt(s, 10, 64); err == nil {
					seed = uint64(v)
				}
			}
			p = newPipeline(prop, tier, seed)
			fmt.Fprintf(os.Stderr, "VERIF_SEED=%d property=%s tier=%s scratch=%s\n", seed, prop, tier, p.Root)
			p.prepare()
			switch prop {
			case "C05":
				code = checkC05(p)
			case "C13":
				code = checkC13(p)
			case "C11":
				code = checkTasks(p, "readers", "B-tasks/readers")
			case "C07":
				code = checkTasks(p, "pipeline", "B-tasks/pipeline")
			default:
				fail("no check for property %s", prop)
			}
		case "replay":
			var rf replayFile
			b, err := os.ReadFile(os.Args[2])
			if err != nil {
				fail("%v", err)
			}
			if err := json.Unmarshal(b, &rf); err != nil {
				fail("%v", err)
			}
			p = newPipeline(rf.Property, "replay", rf.Seed)
			p.Tier = rf.Tier
			p.prepare()
			code = replay(p, &rf, os.Args[2])
		default:
			usage()
		}
	}()
	os.Exit(code)
}
