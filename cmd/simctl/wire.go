package main

import (
	"errors"
	"fmt"
)

// Minimal protobuf wire reader for CodeGeneratorResponse (keeps /verif's own
// tool free of a protobuf dependency).

type respFile struct {
	Name    string
	Content string
}

func readVarint(b []byte) (uint64, int) {
	var v uint64
	for i := 0; i < len(b) && i < 10; i++ {
		v |= uint64(b[i]&0x7f) << (7 * uint(i))
		if b[i] < 0x80 {
			return v, i + 1
		}
	}
	return 0, -1
}

type wireField struct {
	num  int
	typ  int
	val  uint64
	data []byte
}

func parseFields(b []byte) ([]wireField, error) {
	var out []wireField
	for len(b) > 0 {
		tag, n := readVarint(b)
		if n < 0 {
			return nil, errors.New("bad tag")
		}
		b = b[n:]
		f := wireField{num: int(tag >> 3), typ: int(tag & 7)}
		switch f.typ {
		case 0:
			v, n := readVarint(b)
			if n < 0 {
				return nil, errors.New("bad varint")
			}
			f.val = v
			b = b[n:]
		case 1:
			if len(b) < 8 {
				return nil, errors.New("short fixed64")
			}
			b = b[8:]
		case 5:
			if len(b) < 4 {
				return nil, errors.New("short fixed32")
			}
			b = b[4:]
		case 2:
			l, n := readVarint(b)
			if n < 0 || uint64(len(b)-n) < l {
				return nil, errors.New("bad length")
			}
			f.data = b[n : n+int(l)]
			b = b[n+int(l):]
		default:
			return nil, fmt.Errorf("unsupported wire type %d", f.typ)
		}
		out = append(out, f)
	}
	return out, nil
}

// decodeResponse returns the files of a CodeGeneratorResponse; a response
// carrying an error is returned as an error.
func decodeResponse(b []byte) ([]respFile, error) {
	fs, err := parseFields(b)
	if err != nil {
		return nil, err
	}
	var files []respFile
	for _, f := range fs {
		switch f.num {
		case 1:
			return nil, fmt.Errorf("plugin answered with error: %s", string(f.data))
		case 15:
			sub, err := parseFields(f.data)
			if err != nil {
				return nil, err
			}
			var rf respFile
			for _, s := range sub {
				switch s.num {
				case 1:
					rf.Name = string(s.data)
				case 15:
					rf.Content = string(s.data)
				}
			}
			files = append(files, rf)
		}
	}
	return files, nil
}
