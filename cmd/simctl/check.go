package main

import (
	"bytes"
	"context"
	"encoding/json"
	"fmt"
	"os"
	"os/exec"
	"path/filepath"
	"sort"
	"strings"
	"sync"
	"time"
)

// Mirrors of the worker's JSON (sim/simrun).
type Violation struct {
	Class  string                 `json:"class"`
	Detail map[string]interface{} `json:"detail,omitempty"`
}
type RunRecord struct {
	Run     int    `json:"run"`
	LogHash string `json:"log_hash"`
	Result  string `json:"result,omitempty"`
	Draws   int    `json:"draws"`
}
type FoundViolation struct {
	Run       int        `json:"run"`
	Seed      uint64     `json:"seed"`
	Violation *Violation `json:"violation"`
	Tape      []int      `json:"tape"`
	Labels    []string   `json:"labels,omitempty"`
	Trace     []string   `json:"trace,omitempty"`
}
type BatchResult struct {
	Engine      string                 `json:"engine"`
	Property    string                 `json:"property"`
	Variant     string                 `json:"variant"`
	GoVersion   string                 `json:"go_version"`
	Gomaxprocs  int                    `json:"gomaxprocs"`
	Seed        uint64                 `json:"seed"`
	From        int                    `json:"from"`
	Runs        int                    `json:"runs"`
	WallS       float64                `json:"wall_s"`
	Stats       map[string]int64       `json:"stats"`
	Records     []RunRecord            `json:"records,omitempty"`
	Violations  []FoundViolation       `json:"violations,omitempty"`
	Samples     []interface{}          `json:"samples,omitempty"`
	Extra       map[string]interface{} `json:"extra,omitempty"`
	EngineError string                 `json:"engine_error,omitempty"`
}

type batchSpec struct {
	Label    string
	Bin      string
	Workers  int
	Count    int // run indices per worker
	From     int
	Budget   float64
	Variant  string
	Params   string
	Records  bool
	Env      []string // extra environment (GOMAXPROCS, GORACE, ...)
	Shard    bool     // true: worker w takes run indices From+w, From+w+W, ...; false: every worker runs the same indices
}

type merged struct {
	Runs       int
	Stats      map[string]int64
	Violations []FoundViolation
	Records    map[int]RunRecord
	Samples    []interface{}
	Extra      []map[string]interface{}
	WallS      float64
	GoVersion  string
}

// absorb merges the result of a later round of worker processes.
func (m *merged) absorb(o *merged) {
	m.Runs += o.Runs
	m.WallS += o.WallS
	for k, v := range o.Stats {
		if strings.HasPrefix(k, "max_") {
			if v > m.Stats[k] {
				m.Stats[k] = v
			}
		} else {
			m.Stats[k] += v
		}
	}
	m.Violations = append(m.Violations, o.Violations...)
	for k, v := range o.Records {
		m.Records[k] = v
	}
}

// runBatch runs W single-threaded simulator processes in parallel.
func (p *Pipeline) runBatch(s batchSpec) *merged {
	res := make([]*BatchResult, s.Workers)
	var wg sync.WaitGroup
	errs := make([]string, s.Workers)
	killed := make([]bool, s.Workers)
	t0 := time.Now()
	for w := 0; w < s.Workers; w++ {
		wg.Add(1)
		go func(w int) {
			defer wg.Done()
			out := filepath.Join(p.Out, fmt.Sprintf("%s-%d.json", s.Label, w))
			from, stride := s.From, 1
			if s.Shard {
				from, stride = s.From+w, s.Workers
			}
			args := []string{"search", "-seed", fmt.Sprint(p.Seed), "-from", fmt.Sprint(from), "-stride", fmt.Sprint(stride),
				"-count", fmt.Sprint(s.Count), "-budget", fmt.Sprint(s.Budget), "-out", out, "-variant", s.Variant, "-tier", p.Tier, "-params", s.Params}
			if s.Records {
				args = append(args, "-records")
			}
			env := append(append([]string{}, os.Environ()...), s.Env...)
			var o string
			var err error
			if s.Budget > 0 {
				// a worker that is still busy long after its budget (one
				// pathologically slow simulation) is stopped; the batch goes on
				// with what the other workers explored
				ctx, cancel := context.WithTimeout(context.Background(), time.Duration(s.Budget*2+150)*time.Second)
				cmd := exec.CommandContext(ctx, s.Bin, args...)
				cmd.Dir, cmd.Env = p.Root, env
				var buf bytes.Buffer
				cmd.Stdout, cmd.Stderr = &buf, &buf
				err = cmd.Run()
				o = buf.String()
				timedOut := ctx.Err() != nil
				cancel()
				if timedOut {
					killed[w] = true
					return
				}
			} else {
				o, err = p.tryRun(p.Root, env, s.Bin, args...)
			}
			b, rerr := os.ReadFile(out)
			if rerr != nil {
				errs[w] = fmt.Sprintf("worker %d of %s produced no result (%v): %s", w, s.Label, err, tail(o, 3000))
				return
			}
			var br BatchResult
			if jerr := json.Unmarshal(b, &br); jerr != nil {
				errs[w] = fmt.Sprintf("worker %d of %s: bad result: %v", w, s.Label, jerr)
				return
			}
			if br.EngineError != "" {
				errs[w] = fmt.Sprintf("worker %d of %s: engine error: %s", w, s.Label, br.EngineError)
				return
			}
			res[w] = &br
		}(w)
	}
	wg.Wait()
	for _, e := range errs {
		if e != "" {
			fail("%s", e)
		}
	}
	m := &merged{Stats: map[string]int64{}, Records: map[int]RunRecord{}}
	nKilled := 0
	for w := range killed {
		if killed[w] {
			nKilled++
		}
	}
	if nKilled == s.Workers {
		fail("every worker of %s was still busy long after its budget and had to be stopped", s.Label)
	}
	if nKilled > 0 {
		p.logf("WARNING: %d of %d workers of %s were still busy long after their budget and were stopped (their runs are not counted)", nKilled, s.Workers, s.Label)
		m.Stats["workers_stopped_long_after_budget"] = int64(nKilled)
	}
	for _, r := range res {
		if r == nil {
			continue
		}
		m.Runs += r.Runs
		m.GoVersion = r.GoVersion
		for k, v := range r.Stats {
			if strings.HasPrefix(k, "max_") {
				if v > m.Stats[k] {
					m.Stats[k] = v
				}
			} else {
				m.Stats[k] += v
			}
		}
		m.Violations = append(m.Violations, r.Violations...)
		for _, rec := range r.Records {
			m.Records[rec.Run] = rec
		}
		if len(m.Samples) < 4 {
			m.Samples = append(m.Samples, r.Samples...)
		}
		if r.Extra != nil {
			m.Extra = append(m.Extra, r.Extra)
		}
	}
	sort.Slice(m.Violations, func(i, j int) bool { return m.Violations[i].Run < m.Violations[j].Run })
	m.WallS = time.Since(t0).Seconds()
	return m
}

// ---------------------------------------------------------------------------
// known findings

type knownFinding struct {
	Property string   `json:"property"`
	Class    string   `json:"class"`
	Match    []string `json:"match"` // every string must occur in the violation's detail JSON
	What     string   `json:"what"`
}
type knownFile struct {
	Findings []knownFinding `json:"findings"`
	Fixed    []string       `json:"fixed"`
}

func loadKnown() knownFile {
	var k knownFile
	b, err := os.ReadFile(filepath.Join(verifDir, "known-findings.json"))
	if err != nil {
		return k
	}
	if err := json.Unmarshal(b, &k); err != nil {
		fail("known-findings.json: %v", err)
	}
	return k
}

func (k knownFile) match(prop string, v *Violation) *knownFinding {
	d, _ := json.Marshal(v.Detail)
	for i := range k.Findings {
		f := &k.Findings[i]
		if f.Property != prop || f.Class != v.Class {
			continue
		}
		ok := true
		for _, s := range f.Match {
			if !strings.Contains(string(d), s) {
				ok = false
			}
		}
		if ok {
			return f
		}
	}
	return nil
}

// ---------------------------------------------------------------------------
// violations -> minimise -> fresh-process replay -> replay file

type replayFile struct {
	Property     string      `json:"property"`
	Engine       string      `json:"engine"`
	Build        string      `json:"build"` // which binary of the pipeline ran it
	Variant      string      `json:"variant"`
	Params       string      `json:"params"`
	Tier         string      `json:"tier"`
	Seed         uint64      `json:"seed"`
	Run          int         `json:"run"`
	ExactReplay  bool        `json:"exact_replay"`
	Minimised    bool        `json:"minimised"`
	OriginalLen  int         `json:"original_tape_len"`
	Violation    *Violation  `json:"violation"`
	Tape         []int       `json:"tape"`
	Labels       []string    `json:"labels,omitempty"`
	Trace        []string    `json:"trace,omitempty"`
	HowToReplay  string      `json:"how_to_replay"`
	Env          []string    `json:"env,omitempty"`
	Extra        interface{} `json:"extra,omitempty"`
}

func writeJSONFile(path string, v interface{}) {
	b, err := json.MarshalIndent(v, "", " ")
	if err != nil {
		fail("json: %v", err)
	}
	os.MkdirAll(filepath.Dir(path), 0o755)
	if err := os.WriteFile(path, b, 0o644); err != nil {
		fail("write %s: %v", path, err)
	}
}

// replayOnce runs the engine's replay mode in a fresh process and returns the
// class it reproduced ("" = not reproduced).
func (p *Pipeline) replayOnce(bin string, fv *FoundViolation, variant, params string, env []string) (string, *Violation) {
	in := filepath.Join(p.Out, "replay-in.json")
	out := filepath.Join(p.Out, "replay-out.json")
	writeJSONFile(in, fv)
	os.Remove(out)
	e := append(append([]string{}, os.Environ()...), env...)
	o, _ := p.tryRun(p.Root, e, bin, "replay", "-in", in, "-out", out, "-variant", variant, "-tier", p.Tier, "-params", params)
	b, err := os.ReadFile(out)
	if err != nil {
		fail("replay produced no result: %s", tail(o, 2000))
	}
	var r struct {
		Violation   *Violation `json:"violation"`
		EngineError string     `json:"engine_error"`
	}
	json.Unmarshal(b, &r)
	if r.EngineError != "" {
		fail("replay: engine error: %s", r.EngineError)
	}
	if r.Violation == nil {
		return "", nil
	}
	return r.Violation.Class, r.Violation
}

// handleViolations filters known findings, minimises the first unknown
// violation, replays it in a fresh process and writes the replay file. It
// returns the process exit code (0 or 1).
func (p *Pipeline) handleViolations(engine, build, bin string, viols []FoundViolation, variant, params string, env []string, minimiseBudget float64) int {
	known := loadKnown()
	printed := map[string]bool{}
	var first *FoundViolation
	for i := range viols {
		v := &viols[i]
		if kf := known.match(p.Prop, v.Violation); kf != nil {
			if !printed[kf.What] {
				fmt.Printf("KNOWN-FINDING: property=%s %s\n", p.Prop, kf.What)
				printed[kf.What] = true
			}
			continue
		}
		if first == nil {
			first = v
		}
	}
	if first == nil {
		return 0
	}
	rf := &replayFile{Property: p.Prop, Engine: engine, Build: build, Variant: variant, Params: params, Tier: p.Tier, Seed: p.Seed,
		Run: first.Run, OriginalLen: len(first.Tape), Env: env}
	chosen := first
	// minimise
	in := filepath.Join(p.Out, "viol.json")
	minOut := filepath.Join(p.Out, "viol-min.json")
	writeJSONFile(in, first)
	e := append(append([]string{}, os.Environ()...), env...)
	p.tryRun(p.Root, e, bin, "minimise", "-in", in, "-out", minOut, "-budget", fmt.Sprint(minimiseBudget), "-variant", variant, "-tier", p.Tier, "-params", params)
	var min FoundViolation
	if b, err := os.ReadFile(minOut); err == nil && json.Unmarshal(b, &min) == nil && min.Violation != nil && len(min.Tape) <= len(first.Tape) {
		if cls, _ := p.replayOnce(bin, &min, variant, params, env); cls == first.Violation.Class {
			chosen = &min
			rf.Minimised = true
			rf.ExactReplay = true
		}
	}
	if !rf.Minimised {
		cls, _ := p.replayOnce(bin, first, variant, params, env)
		rf.ExactReplay = cls == first.Violation.Class
	}
	rf.Violation = chosen.Violation
	rf.Tape = chosen.Tape
	rf.Labels = chosen.Labels
	rf.Trace = chosen.Trace
	path := filepath.Join(verifDir, "replays", fmt.Sprintf("%s-%d-%d.json", p.Prop, p.Seed, first.Run))
	rf.HowToReplay = fmt.Sprintf("cd /verif && ./check %s --replay %s", p.Prop, path)
	writeJSONFile(path, rf)
	fmt.Printf("VIOLATION property=%s replay=%s\n", p.Prop, path)
	fmt.Printf("  class=%s run=%d minimised=%v (%d -> %d draws) exact_replay=%v\n", rf.Violation.Class, rf.Run, rf.Minimised, rf.OriginalLen, len(rf.Tape), rf.ExactReplay)
	return 1
}

// ---------------------------------------------------------------------------
// evidence

type evidence struct {
	PropertyID  string                 `json:"property_id"`
	Tier        string                 `json:"tier"`
	Seed        uint64                 `json:"seed"`
	Level       string                 `json:"level"`
	Coverage    map[string]interface{} `json:"coverage"`
	Assumptions []string               `json:"assumptions"`
	WallS       float64                `json:"wall_s"`
	Violations  int                    `json:"violations"`
}

func (p *Pipeline) writeEvidence(ev *evidence) {
	ev.PropertyID = p.Prop
	ev.Tier = p.Tier
	ev.Seed = p.Seed
	ev.Level = "exploration"
	ev.WallS = time.Since(p.started).Seconds()
	ev.Coverage["timings_s"] = p.Timings
	writeJSONFile(filepath.Join(verifDir, "evidence", p.Prop+".json"), ev)
}

func sortedStats(m map[string]int64, prefix string) map[string]int64 {
	out := map[string]int64{}
	for k, v := range m {
		if strings.HasPrefix(k, prefix) {
			out[k] = v
		}
	}
	return out
}
