package main

import (
	"fmt"
)

// replay rebuilds the engine named in the replay file from /repo's current
// working tree and re-executes the recorded tape.
func replay(p *Pipeline, rf *replayFile, path string) int {
	if len(rf.Tape) == 0 && !rf.ExactReplay {
		fmt.Printf("replay file %s records a probabilistic (native-leg) observation without a tape; re-run the check with VERIF_SEED=%d\n", path, rf.Seed)
		return 0
	}
	var bin string
	switch rf.Property {
	case "C05":
		reqs := p.buildPluginAndRequests()
		p.setupVariant(rf.Variant, reqs, true)
		if rf.Build == "race-detmarshal" {
			var env []string
			bin, env = p.buildEngB(rf.Variant)
			rf.Env = env
		} else {
			bin = p.buildEngA(rf.Variant, rf.Build)
		}
	case "C11", "C07":
		reqs := p.buildPluginAndRequests()
		p.setupVariant(rf.Variant, reqs, true)
		var env []string
		bin, env = p.buildEngB(rf.Variant)
		rf.Env = env
	case "C13":
		p.buildPluginAndRequests()
		var params string
		bin, _, params = p.buildEngC()
		rf.Params = params
	default:
		fail("replay: unknown property %s", rf.Property)
	}
	fv := &FoundViolation{Run: rf.Run, Seed: rf.Seed, Violation: rf.Violation, Tape: rf.Tape}
	cls, v := p.replayOnce(bin, fv, rf.Variant, rf.Params, rf.Env)
	if cls == "" {
		fmt.Printf("NOT-REPRODUCED property=%s replay=%s (the recorded tape no longer violates on the current tree)\n", rf.Property, path)
		return 0
	}
	fmt.Printf("VIOLATION property=%s replay=%s\n  reproduced class=%s (recorded class=%s)\n", rf.Property, path, cls, rf.Violation.Class)
	_ = v
	return 1
}
